"""Check runner plumbing: mergeable partial results, parallel driver, known-finding
matching, replay artefacts and evidence files.

Every property driver (mc/props/cNN.py) is an *enumerator* of JSON-able cases plus a
*judge* `judge(case, part)` that drives the real code through the case, compares every
step with the reference model and records failures in `part`.  `replay(case)` is the
judge applied to one stored case, without any explorer.
"""
import hashlib
import importlib
import json
import multiprocessing
import os
import re
import subprocess
import sys
import time
import traceback

VERIF = os.path.dirname(os.path.dirname(os.path.abspath(__file__)))
# scratch runs (mutant screening against a copy of the repository) write their evidence and replays elsewhere
OUT = os.environ.get("VERIF_OUT") or VERIF
KNOWN_FINDINGS = os.path.join(VERIF, "known_findings.json")
MAX_FAIL_PER_SIG = 3
WORKERS = int(os.environ.get("VERIF_WORKERS", "0")) or min(16, os.cpu_count() or 1)


class HarnessError(Exception):
    pass


def jsonable(x):
    if isinstance(x, (str, int, float, bool)) or x is None:
        return x
    if isinstance(x, bytes):
        return {"__bytes__": x.hex()}
    if isinstance(x, dict):
        return {str(k): jsonable(v) for k, v in x.items()}
    if isinstance(x, (list, tuple)):
        return [jsonable(v) for v in x]
    if isinstance(x, (set, frozenset)):
        return sorted((jsonable(v) for v in x), key=repr)
    return repr(x)


class Part(object):
    """Mergeable partial result of one chunk of exploration."""

    def __init__(self):
        self.evaluations = 0  # cases / executions run
        self.transitions = 0  # operations executed against the real code
        self.validated = 0  # model predictions compared with the implementation
        self.nontrivial = 0  # distinct non-trivial cases (enumerations are duplicate-free)
        self.states = set()  # hashes of canonical snapshots
        self.outcomes = set()  # distinct observed outcome classes
        self.failures = {}  # sig -> [count, [failure dicts]]
        self.samples = []
        self.notes = {}

    def state(self, snapshot):
        self.states.add(hash(snapshot))

    def outcome(self, key):
        self.outcomes.add(key)

    def note(self, key, amount=1):
        self.notes[key] = self.notes.get(key, 0) + amount

    def sample(self, case, limit=4):
        if len(self.samples) < limit:
            self.samples.append(jsonable(case))

    def fail(self, sig, case, expected, observed):
        entry = self.failures.setdefault(sig, [0, []])
        entry[0] += 1
        if len(entry[1]) < MAX_FAIL_PER_SIG:
            entry[1].append({"sig": sig, "case": jsonable(case), "expected": jsonable(expected), "observed": jsonable(observed)})

    def merge(self, other):
        self.evaluations += other.evaluations
        self.transitions += other.transitions
        self.validated += other.validated
        self.nontrivial += other.nontrivial
        self.states |= other.states
        self.outcomes |= other.outcomes
        for sig, (count, items) in other.failures.items():
            entry = self.failures.setdefault(sig, [0, []])
            entry[0] += count
            room = MAX_FAIL_PER_SIG - len(entry[1])
            if room > 0:
                entry[1].extend(items[:room])
        for sample in other.samples:
            if len(self.samples) < 12:
                self.samples.append(sample)
        for key, amount in other.notes.items():
            self.notes[key] = self.notes.get(key, 0) + amount


def raised_inside_code_under_test(error):
    """Was the exception raised by a frame of the tree under test (and merely not anticipated by the harness)?"""
    from mc import repo

    tb = error.__traceback__
    innermost = None
    while tb is not None:
        innermost = tb.tb_frame.f_code.co_filename
        tb = tb.tb_next
    return innermost is not None and os.path.realpath(innermost).startswith(repo.REPO + os.sep)


def _call(payload):
    module_name, func_name, item = payload
    module = importlib.import_module(module_name)
    try:
        return getattr(module, func_name)(item)
    except Exception as error:
        if raised_inside_code_under_test(error):
            # the code under test failed in a way no judge anticipated (never happens on a tree where the properties
            # hold): report it as a violation with the work item as replayable case instead of giving up
            part = Part()
            part.evaluations += 1
            where = traceback.extract_tb(error.__traceback__)[-1]
            part.fail("unanticipated-%s-from-%s:%s" % (type(error).__name__, os.path.basename(where.filename), where.name),
                      {"__work_item__": jsonable(item), "module": module_name, "function": func_name}, "no exception of this kind", repr(error)[:400])
            return part
        raise HarnessError("worker %s.%s failed on %r\n%s" % (module_name, func_name, item, traceback.format_exc()))


class Ctx(object):
    def __init__(self, pid, tier, seed):
        self.pid = pid
        self.tier = tier
        self.seed = seed
        self.total = Part()
        self.started = time.time()
        self.budget = float(os.environ.get("VERIF_BUDGET_S", "0")) or (900.0 if tier == "quick" else 6000.0)
        self.cap_hit = False
        self.bound = {}
        self.rule = ""
        self.assumptions = []
        self.exhaustive = True
        self.extra = {}
        self._pool = None
        # one scratch directory per run, created before the workers fork and removed when the run ends
        # (worker processes leave through os._exit, so their own atexit handlers would never run)
        import tempfile

        # scratch files are small and short-lived: a memory file system (if there is one) spares the disk and the kernel's directory locks
        base = os.environ.get("VERIF_SCRATCH") or ("/dev/shm" if os.path.isdir("/dev/shm") and os.access("/dev/shm", os.W_OK) else None)
        self.tmp_root = tempfile.mkdtemp(prefix="cutplace_verif_run_", dir=base)
        os.environ["VERIF_TMP"] = self.tmp_root
        os.environ["TMPDIR"] = self.tmp_root  # temporary files of libraries used by the producers (xlsxwriter) go there as well
        tempfile.tempdir = self.tmp_root

    # ---- parallel driver -------------------------------------------------------
    def pool(self):
        if self._pool is None:
            context = multiprocessing.get_context("fork")
            self._pool = context.Pool(WORKERS)
        return self._pool

    def pmap(self, module_name, func_name, items, label=None):
        """Run module.func(item) -> Part for every item on the worker pool and merge the
        parts in item order (results do not depend on worker timing)."""
        items = list(items)
        if not items:
            return
        if self.seed:
            # the seed only rotates the start offset of the enumeration
            k = self.seed % len(items)
            items = items[k:] + items[:k]
        payloads = [(module_name, func_name, item) for item in items]
        done = 0
        if WORKERS <= 1 or len(items) == 1:
            results = map(_call, payloads)
        else:
            results = self.pool().imap(_call, payloads, chunksize=1)
        for part in results:
            self.total.merge(part)
            done += 1
            if time.time() - self.started > self.budget and done < len(items):
                self.cap_hit = True
                self.exhaustive = False
                self.extra.setdefault("cap", []).append(
                    "%s: budget %.0fs reached after %d of %d work items" % (label or func_name, self.budget, done, len(items))
                )
                if self._pool is not None:
                    self._pool.terminate()
                    self._pool = None
                break

    def close(self):
        if self._pool is not None:
            self._pool.close()
            self._pool.join()
            self._pool = None
        if self.tmp_root and os.path.isdir(self.tmp_root):
            import shutil

            shutil.rmtree(self.tmp_root, ignore_errors=True)


# ---- known findings ----------------------------------------------------------------
def load_known_findings():
    if not os.path.exists(KNOWN_FINDINGS):
        return {"known": [], "fixed": []}
    with open(KNOWN_FINDINGS, encoding="utf-8") as known_file:
        return json.load(known_file)


def match_known(pid, sig, findings):
    for finding in findings.get("known", []):
        if finding["property"] == pid and re.fullmatch(finding["match"], sig, re.S):
            return finding
    return None


# ---- replay ------------------------------------------------------------------------
def write_replay(pid, failure):
    body = {"property": pid}
    body.update(failure)
    text = json.dumps(body, indent=1, sort_keys=True, ensure_ascii=True)
    digest = hashlib.sha1(json.dumps([failure["sig"], failure["case"]], sort_keys=True).encode("utf-8")).hexdigest()[:16]
    folder = os.path.join(OUT, "replays", pid)
    os.makedirs(folder, exist_ok=True)
    path = os.path.join(folder, digest + ".json")
    with open(path, "w", encoding="utf-8") as replay_file:
        replay_file.write(text + "\n")
    return path


def replay_in_subprocess(pid, path):
    command = [sys.executable, os.path.join(VERIF, "check"), pid, "--replay", path, "--json"]
    environment = dict(os.environ)
    environment["VERIF_WORKERS"] = "1"
    completed = subprocess.run(command, capture_output=True, text=True, env=environment, timeout=600)
    marker = [line for line in completed.stdout.splitlines() if line.startswith("REPLAY-JSON ")]
    if not marker:
        raise HarnessError("replay of %s produced no result:\n%s\n%s" % (path, completed.stdout, completed.stderr))
    return json.loads(marker[-1][len("REPLAY-JSON "):])


def run_replay(module, pid, path, as_json):
    with open(path, encoding="utf-8") as replay_file:
        body = json.load(replay_file)
    part = Part()
    case = body["case"]
    if isinstance(case, dict) and "__work_item__" in case:
        # a whole work item that made the code under test fail unexpectedly: run it again the same way
        part = _call((case["module"], case["function"], _tuples(case["__work_item__"])))
    else:
        try:
            module.judge(case, part)
        except Exception as error:
            if not raised_inside_code_under_test(error):
                raise
            where = traceback.extract_tb(error.__traceback__)[-1]
            part.fail("unanticipated-%s-from-%s:%s" % (type(error).__name__, os.path.basename(where.filename), where.name), case, "no exception of this kind", repr(error)[:400])
    sigs = sorted(part.failures)
    reproduced = body["sig"] in part.failures
    if as_json:
        observed = [items[0]["observed"] for _, (_, items) in sorted(part.failures.items())]
        print("REPLAY-JSON " + json.dumps({"sigs": sigs, "reproduced": reproduced, "observed": observed}, sort_keys=True))
    else:
        print("replay %s: case=%s" % (path, json.dumps(body["case"])))
        for sig, (count, items) in sorted(part.failures.items()):
            print("  failure sig=%s\n    expected=%s\n    observed=%s" % (sig, json.dumps(items[0]["expected"]), json.dumps(items[0]["observed"])))
        if reproduced:
            print("VIOLATION property=%s replay=%s" % (pid, path))
        else:
            print("not reproduced (recorded sig %s, now %s)" % (body["sig"], sigs))
    return 1 if reproduced else 0


def _tuples(value):
    """JSON turned the tuples of a work item into lists: most work functions unpack sequences, a few need tuples."""
    if isinstance(value, list):
        return tuple(_tuples(v) for v in value)
    if isinstance(value, dict):
        return {k: _tuples(v) for k, v in value.items()}
    return value


# ---- finishing a run -----------------------------------------------------------------
def finish(ctx, module):
    ctx.close()
    total = ctx.total
    findings = load_known_findings()
    known_hits = {}
    violations = []
    for sig in sorted(total.failures):
        count, items = total.failures[sig]
        finding = match_known(ctx.pid, sig, findings)
        if finding is not None:
            hit = known_hits.setdefault(finding["id"], [finding, 0, set()])
            hit[1] += count
            hit[2].add(sig)
        else:
            violations.append((sig, count, items))
    exit_code = 0
    for finding_id in sorted(known_hits):
        finding, count, sigs = known_hits[finding_id]
        print("KNOWN-FINDING: property=%s %s: %s [%d failing cases, %d signatures]" % (ctx.pid, finding_id, finding["what"], count, len(sigs)))
    replay_paths = []
    for index, (sig, count, items) in enumerate(violations):
        if index >= int(os.environ.get("VERIF_MAX_SIGS", "25")):
            print("... %d further distinct failure signatures not written out" % (len(violations) - index))
            break
        failure = min(items, key=lambda item: len(json.dumps(item["case"])))
        path = write_replay(ctx.pid, failure)
        replay_paths.append(path)
        if index < 2 and not os.environ.get("VERIF_NO_REPLAY_CHECK"):
            first = replay_in_subprocess(ctx.pid, path)
            second = replay_in_subprocess(ctx.pid, path)
            if first != second or not first["reproduced"]:
                print("HARNESS-ERROR: replay of %s is not deterministic or does not reproduce: %s vs %s" % (path, first, second))
                write_evidence(ctx, module, len(violations), known_hits)
                return 2
        rel = os.path.relpath(path, VERIF)
        print("  sig=%s cases=%d\n    case=%s\n    expected=%s\n    observed=%s" % (
            sig, count, json.dumps(failure["case"])[:600], json.dumps(failure["expected"])[:400], json.dumps(failure["observed"])[:400]))
        print("VIOLATION property=%s replay=%s" % (ctx.pid, rel))
        exit_code = 1
    write_evidence(ctx, module, len(violations), known_hits)
    return exit_code


def write_evidence(ctx, module, violation_count, known_hits):
    total = ctx.total
    wall = time.time() - ctx.started
    samples = total.samples
    if samples and ctx.seed:
        k = ctx.seed % len(samples)
        samples = samples[k:] + samples[:k]
    coverage = {
        "states": len(total.states),
        "transitions": total.transitions,
        "traces_validated_against_impl": total.validated,
        "samples": samples[:6] if samples else ["(no sample recorded)"],
        "evaluations": total.evaluations,
        "distinct_nontrivial": total.nontrivial,
        "rule": ctx.rule,
        "bound": ctx.bound,
        "exhaustive": bool(ctx.exhaustive and not ctx.cap_hit),
        "cap_hit": ctx.cap_hit,
        "distinct_outcomes": len(total.outcomes),
        "outcome_classes": sorted(map(str, total.outcomes))[:40],
        "masked_by_known_finding": {fid: hit[1] for fid, hit in known_hits.items()},
        "counters": dict(sorted(total.notes.items())),
    }
    coverage.update(ctx.extra)
    evidence = {
        "property_id": ctx.pid,
        "tier": ctx.tier,
        "seed": ctx.seed,
        "level": "model_checking",
        "coverage": coverage,
        "assumptions": ctx.assumptions,
        "wall_s": round(wall, 2),
        "violations": violation_count,
    }
    folder = os.path.join(OUT, "evidence")
    os.makedirs(folder, exist_ok=True)
    path = os.path.join(folder, ctx.pid + ".json")
    temporary = path + ".tmp%d" % os.getpid()
    with open(temporary, "w", encoding="utf-8") as evidence_file:
        json.dump(evidence, evidence_file, indent=1, sort_keys=True, ensure_ascii=True)
        evidence_file.write("\n")
    os.replace(temporary, path)
    print(
        "%s tier=%s seed=%d: states=%d transitions=%d validated=%d evaluations=%d nontrivial=%d outcomes=%d exhaustive=%s violations=%d wall=%.1fs"
        % (ctx.pid, ctx.tier, ctx.seed, len(total.states), total.transitions, total.validated, total.evaluations, total.nontrivial,
           len(total.outcomes), coverage["exhaustive"], violation_count, wall)
    )
