"""The explorers.

(P) deviation-bounded product explorer: `deviations(sizes, d)` enumerates every choice
    vector with at most d non-default (non-zero) coordinates, fewest deviations first.
(H) history explorer: `bfs(...)` breadth-first search over operation sequences on fresh
    real objects with canonical-state de-duplication, to a depth bound or the fixpoint.
(S) the stream explorer for C13 lives in mc/props/c13.py (it needs the generator frame).
"""
import itertools


def deviations(sizes, bound):
    """Yield tuples c with 0 <= c[i] < sizes[i] having at most `bound` non-zero entries.
    Order: by number of deviations, then lexicographic. bound=None: the full product."""
    count = len(sizes)
    if bound is None or bound >= count:
        # full product, still ordered by number of deviations for readability of first failures
        bound = count
    base = [0] * count
    for k in range(0, bound + 1):
        for positions in itertools.combinations(range(count), k):
            if any(sizes[p] < 2 for p in positions):
                continue
            ranges = [range(1, sizes[p]) for p in positions]
            for values in itertools.product(*ranges):
                choice = list(base)
                for p, v in zip(positions, values):
                    choice[p] = v
                yield tuple(choice)


def count_deviations(sizes, bound):
    total = 0
    count = len(sizes)
    if bound is None or bound >= count:
        bound = count
    for k in range(0, bound + 1):
        for positions in itertools.combinations(range(count), k):
            product = 1
            for p in positions:
                product *= max(0, sizes[p] - 1)
            total += product
    return total


def chunks(items, size):
    items = list(items)
    return [items[i:i + size] for i in range(0, len(items), size)]


def bfs(run, operations, part, max_depth=None, max_states=None, merge=True, extend=None):
    """Breadth-first search over histories (tuples of operations).

    run(history) executes the whole history on fresh real objects, compares every observation
    with the model (recording failures itself) and returns the canonical snapshot of the state
    reached, or None if the history must not be extended (e.g. the run is over).
    Every operation is applied in every distinct state; a history is extended only if the state
    it reaches has not been seen (merge=True).  With merge=False every history up to max_depth is
    extended - plain enumeration, used to cross-check the merging.
    extend(history, op) may veto individual edges.
    Returns dict(states, transitions, depth_completed, fixpoint, capped).
    """
    start_key = run(())
    part.transitions += 1
    seen = {start_key: ()}
    part.state(start_key)
    frontier = [()]
    depth = 0
    transitions = 1
    fixpoint = False
    capped = False
    while frontier and not capped:
        if max_depth is not None and depth >= max_depth:
            break
        next_frontier = []
        for history in frontier:
            for op in operations:
                if extend is not None and not extend(history, op):
                    continue
                longer = history + (op,)
                key = run(longer)
                transitions += 1
                part.transitions += 1
                if key is None:
                    continue
                if key in seen:
                    if merge:
                        continue
                else:
                    seen[key] = longer
                    part.state(key)
                next_frontier.append(longer)
            if max_states is not None and len(seen) > max_states:
                capped = True
                break
        frontier = next_frontier
        depth += 1
        if not frontier and not capped:
            fixpoint = True
    return {"states": len(seen), "transitions": transitions, "depth_completed": depth, "fixpoint": fixpoint, "capped": capped, "representatives": seen}
