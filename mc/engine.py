"""The explorers.

(P) deviation-bounded product explorer: `deviations(sizes, d)` enumerates every choice
    vector with at most d non-default (non-zero) coordinates, fewest deviations first.
(H) history explorer: `bfs(...)` breadth-first search over operation sequences on fresh
    real objects with canonical-state de-duplication, to a depth bound or the fixpoint.
(S) the stream explorer for C13 lives in mc/props/c13.py (it needs the generator frame).
"""
import itertools


def deviations(sizes, bound):
    """Yield tuples c with 0 <= c[i] < sizes[i] having at most `bound` non-zero entries.
    Order: by number of deviations, then lexicographic. bound=None: the full product."""
    count = len(sizes)
    if bound is None or bound >= count:
        # full product, still ordered by number of deviations for readability of first failures
        bound = count
    base = [0] * count
    for k in range(0, bound + 1):
        for positions in itertools.combinations(range(count), k):
            if any(sizes[p] < 2 for p in positions):
                continue
            ranges = [range(1, sizes[p]) for p in positions]
            for values in itertools.product(*ranges):
                choice = list(base)
                for p, v in zip(positions, values):
                    choice[p] = v
                yield tuple(choice)


def count_deviations(sizes, bound):
    total = 0
    count = len(sizes)
    if bound is None or bound >= count:
        bound = count
    for k in range(0, bound + 1):
        for positions in itertools.combinations(range(count), k):
            product = 1
            for p in positions:
                product *= max(0, sizes[p] - 1)
            total += product
    return total


def chunks(items, size):
    items = list(items)
    return [items[i:i + size] for i in range(0, len(items), size)]


def bfs(initial_history, operations, build, canon, judge_edge, part, max_depth=None, max_states=None, merge=True):
    """Breadth-first search over histories.

    build(history) -> live state (fresh real objects, the history replayed)
    canon(state) -> hashable canonical snapshot
    judge_edge(history, op, part) -> executes history + [op] on fresh objects, compares the
        observation of the last operation with the model, returns the canonical snapshot reached.
    Every edge out of every distinct state is executed; a history is extended only if the
    state it reaches is new (merge=True) — with merge=False every history up to max_depth
    is extended (plain enumeration, used to cross-check the merging).
    Returns dict(states, transitions, depth_completed, fixpoint).
    """
    seen = {}
    start_key = canon(build(list(initial_history)))
    seen[start_key] = tuple(initial_history)
    part.state(start_key)
    frontier = [tuple(initial_history)]
    depth = 0
    transitions = 0
    fixpoint = False
    while frontier:
        if max_depth is not None and depth >= max_depth:
            break
        next_frontier = []
        for history in frontier:
            for op in operations:
                key = judge_edge(list(history), op, part)
                transitions += 1
                part.transitions += 1
                if key is None:
                    continue
                if merge:
                    if key in seen:
                        continue
                    seen[key] = history + (op,)
                    part.state(key)
                else:
                    if key not in seen:
                        seen[key] = history + (op,)
                        part.state(key)
                next_frontier.append(history + (op,))
                if max_states is not None and len(seen) > max_states:
                    return {"states": len(seen), "transitions": transitions, "depth_completed": depth, "fixpoint": False, "capped": True}
        frontier = next_frontier
        depth += 1
        if not frontier:
            fixpoint = True
    return {"states": len(seen), "transitions": transitions, "depth_completed": depth, "fixpoint": fixpoint, "capped": False, "representatives": seen}
