"""Helpers that touch the real cutplace code: build data formats, field formats and CIDs from
declaration structures, run readers and normalise what they return."""
import io

from mc.models import fieldmodel

# preset name -> (format, extra properties in CID spelling, decimal separator, thousands separator)
PRESETS = {
    "delimited": ("delimited", [], ".", ""),
    "delimited_us": ("delimited", [("thousands separator", ",")], ".", ","),
    "delimited_de": ("delimited", [("item delimiter", ";"), ("decimal separator", ","), ("thousands separator", ".")], ",", "."),
    "delimited_comma": ("delimited", [("item delimiter", ";"), ("decimal separator", ",")], ",", ""),  # decimal comma, no grouping: a dot has no meaning
    "fixed": ("fixed", [], ".", ""),
    "fixed_de": ("fixed", [("decimal separator", ","), ("thousands separator", ".")], ",", "."),
    "excel": ("excel", [], ".", ""),
    "ods": ("ods", [], ".", ""),
}


def modules():
    from cutplace import checks, data, errors, fields, interface, ranges, rowio, validio

    return {"checks": checks, "data": data, "errors": errors, "fields": fields, "interface": interface, "ranges": ranges, "rowio": rowio, "validio": validio}


def complete(decl):
    """Fill the derived keys of a declaration (format kind, separators)."""
    decl = dict(decl)
    preset = decl.get("preset", "delimited")
    fmt, _, dec_sep, thou_sep = PRESETS[preset]
    decl["fmt"] = fmt
    decl.setdefault("dec_sep", dec_sep)
    decl.setdefault("thou_sep", thou_sep)
    decl.setdefault("empty", False)
    decl.setdefault("name", "f")
    return decl


def length_text(decl):
    if decl["fmt"] == "fixed":
        return str(decl["width"])
    return fieldmodel.render_items(decl.get("length"))


def make_format(preset, allowed=None, extra=()):
    m = modules()
    fmt, props, _, _ = PRESETS[preset]
    data_format = m["data"].DataFormat(fmt)
    for name, value in list(props) + list(extra):
        data_format.set_property(name, value)
    if allowed:
        data_format.set_property("allowed characters", fieldmodel.render_items(allowed))
    data_format.validate()
    return data_format


def declare(decl, data_format=None):
    """The real field format object for a declaration structure (direct constructor path)."""
    m = modules()
    if data_format is None:
        data_format = make_format(decl.get("preset", "delimited"), decl.get("allowed"))
    field_class = getattr(m["fields"], decl["type"] + "FieldFormat")
    return field_class(decl["name"], bool(decl["empty"]), length_text(decl), fieldmodel.render_rule(decl["type"], decl.get("rule")), data_format)


def quoted_items(items):
    """A range text in which limits that are letters or digits are written as quoted characters ("A"..."Z")."""
    def limit(value):
        if value is None:
            return ""
        return '"%s"' % chr(value) if chr(value).isalnum() and value < 128 else str(value)

    return ", ".join(limit(lo) if single else limit(lo) + "..." + limit(hi) for lo, hi, single in items)


def cid_rows(preset, decls, checks=(), header=0, allowed=None, extra=(), line_delimiter=None, allowed_quoted=False, allowed_after_fields=False, props_after_fields=False):
    fmt, props, _, _ = PRESETS[preset]
    rows = [["D", "Format", fmt]]
    if header:
        rows.append(["D", "Header", str(header)])
    for name, value in ([] if props_after_fields else list(props)) + list(extra):
        rows.append(["D", name, value])
    if line_delimiter:
        rows.append(["D", "Line delimiter", line_delimiter])
    allowed_row = ["D", "Allowed characters", quoted_items(allowed) if allowed_quoted else fieldmodel.render_items(allowed)] if allowed else None
    if allowed_row and not allowed_after_fields:
        rows.append(allowed_row)
    for decl in decls:
        rows.append(["F", decl["name"], decl.get("example", ""), "X" if decl["empty"] else "", length_text(decl), decl["type"],
                     fieldmodel.render_rule(decl["type"], decl.get("rule"))])
    if allowed_row and allowed_after_fields:
        rows.append(allowed_row)  # data format rows may follow the fields: the property still applies to every field
    if props_after_fields:
        rows += [["D", name, value] for name, value in props]  # so do the separators
    for check in checks:
        rows.append(["C"] + list(check))
    return rows


def make_cid(rows, path="cid.csv"):
    m = modules()
    cid = m["interface"].Cid()
    cid.read(path, [list(row) for row in rows])
    return cid


class NamedStringIO(io.StringIO):
    """A text stream that carries a name, so that locations name the input."""

    def __init__(self, text, name="data.txt"):
        super().__init__(text, newline="")
        self.name = name


def describe_error(error):
    location = error.location
    info = {"type": type(error).__name__, "text": str(error)}
    if location is not None:
        info["line"] = location.line
        try:
            info["cell"] = location.cell
        except AssertionError:
            info["cell"] = None
    see_also = getattr(error, "see_also_location", None)
    if see_also is not None:
        info["see_line"] = see_also.line
    return info


def native(value):
    """JSON-able rendering of a validated value."""
    import decimal
    import time

    if isinstance(value, time.struct_time):
        return ["struct_time"] + list(value[:6])
    if isinstance(value, decimal.Decimal):
        return "Decimal(%s)" % value
    return value


def new_workbook(path):
    """An xlsxwriter workbook with a fixed creation date, so that generated files are the same bytes on every run."""
    import datetime

    import xlsxwriter

    workbook = xlsxwriter.Workbook(path)
    workbook.set_properties({"created": datetime.datetime(2020, 1, 1, 0, 0, 0), "author": "cutplace-verif"})
    return workbook
