"""Generator of valid CID structures, meaning-preserving rewrites and single structural defects.
The oracle is the structure itself (CIDs are rendered, never parsed).  Never imports cutplace."""
import itertools
import keyword

# name -> cells after the marker: name, example, empty, length, type, rule   (delimited/excel/ods)
FIELDS = {
    "id": ["id", "12", "", "1...5", "Integer", "0...99999"],
    "name": ["name", "Bob", "X", "...10", "Text", ""],
    "kind": ["kind", "a", "", "", "Choice", '"a","b"'],
    "born": ["born", "2000-01-31", "X", "10", "DateTime", "YYYY-MM-DD"],
    "amount": ["amount", "1.50", "", "", "Decimal", "0...99.99"],
    "code": ["code", "abc", "", "", "Pattern", "a*"],
    "tag": ["tag", "ab", "", "2", "RegEx", "[a-z]+"],
    "const": ["const", "K", "", "1", "Constant", '"K"'],
    # cell contents rich in characters that are item delimiters elsewhere (bars, semicolons, tabs): they are cell contents here
    "country": ["country", "DE", "", "2", "RegEx", "^(AT|BE|BG|CY|CZ|DE|DK|EE|ES|FI|FR|GR|HR|HU)$"],
    "codes": ["codes", "a;b", "X", "", "Choice", '"a;b", "c;d;e", "f|g|h", "i\tj", ";;;;", "||||"'],
}
FIXED_LENGTH = {"id": "5", "name": "10", "kind": "1", "born": "10", "amount": "5", "code": "3", "tag": "2", "const": "1", "country": "2", "codes": "5"}
PROPERTIES = {
    # allowed characters: blank up to Z and a up to ~ written with quoted limits (values keep their case; every example fits)
    "delimited": [["Header", "1"], ["Encoding", "UTF-8"], ["Allowed characters", '" "..."Z", "a"..."~", 9'], ["Item delimiter", ";"], ["Line delimiter", "LF"], ["Quote character", "'"], ["Decimal separator", ","], ["Thousands separator", "."]],
    "fixed": [["Header", "1"], ["Encoding", "utf-8"], ["Allowed characters", '" "..."Z", "a"..."~"'], ["Line delimiter", "LF"], ["Decimal separator", ","]],
    "excel": [["Header", "2"], ["Sheet", "2"], ["Encoding", "utf-8"]],
    "ods": [["Header", "1"], ["Sheet", "3"]],
}
_TEXT_VALUES = [("Encoding", "klingon"), ("Line delimiter", "xx"), ("Decimal separator", ";"), ("Thousands separator", ";"), ("Allowed characters", "Z...A"), ("Header", "1.5")]
INVALID_VALUES = {
    "delimited": _TEXT_VALUES + [("Skip initial space", "maybe"), ("Quoting", "some"), ("Quote character", "ab"), ("Escape character", "x"), ("Item delimiter", "ab")],
    "fixed": _TEXT_VALUES,
    "excel": [("Sheet", "0"), ("Sheet", "x"), ("Header", "-1"), ("Allowed characters", "Z...A"), ("Encoding", "klingon")],
    "ods": [("Sheet", "0"), ("Sheet", "x"), ("Header", "-1"), ("Allowed characters", "Z...A"), ("Encoding", "klingon")],
}
INAPPLICABLE = {"delimited": ["Sheet", "1"], "fixed": ["Item delimiter", ";"], "excel": ["Line delimiter", "LF"], "ods": ["Quote character", "'"]}
CHECKS = {
    "id unique": (["id unique", "IsUnique", "id"], ["id"]),
    "kinds": (["kinds", "DistinctCount", "kind < 3"], ["kind"]),
    "pair": (["pair", "IsUnique", "id, name"], ["id", "name"]),
}


def field_row(name, fmt):
    cells = list(FIELDS[name])
    if fmt == "fixed":
        cells[3] = FIXED_LENGTH[name]
    return ["F"] + cells


def base_cid(fmt, properties, fields, checks, comments):
    rows = []
    if comments:
        rows.append(["", "Interface: generated"])
    rows.append(["D", "Format", fmt.title()])
    for name, value in properties:
        rows.append(["D", name, value])
    if comments:
        rows.append(["", "", "fields follow"])
    comma = ["Decimal separator", ","] in [list(p) for p in properties]
    for index, name in enumerate(fields):
        rows.append(field_row(name, fmt))
        if comma and name == "amount":
            rows[-1][2] = rows[-1][2].replace(".", ",")  # the example is written with the declared decimal separator
        if comments and index == 0:
            rows.append([])
    if comments and checks:
        rows.append(["", "checks"])
    for name in checks:
        rows.append(["C"] + CHECKS[name][0])
    return rows


def base_cids(count):
    """A deterministic, diverse list of valid base CIDs."""
    result = []
    names = list(FIELDS)
    field_sets = [names[:n] for n in range(1, 7)] + [["country"], ["codes"], ["codes", "country"]] + [names[2:5], names[3:8], ["kind", "id"], ["name", "id", "born"], names[::2], names[1::2], list(reversed(names[:6]))]
    index = 0
    for fields in itertools.cycle(field_sets):
        for fmt in ("delimited", "fixed", "excel", "ods"):
            properties = PROPERTIES[fmt][: ((index // 4) % (len(PROPERTIES[fmt]) + 1))]  # index // 4: independent of the format cycle
            checks = [c for c, (_, needs) in CHECKS.items() if all(n in fields for n in needs)][: index % 4]
            comments = index % 2 == 1
            result.append({"fmt": fmt, "rows": base_cid(fmt, properties, fields, checks, comments), "fields": list(fields), "checks": checks})
            index += 1
            if len(result) >= count:
                return result


def kinds(rows):
    return [(row[0].strip().lower() if row else "") for row in rows]


# ---- meaning-preserving rewrites ---------------------------------------------------------------
def rewrites(rows):
    """Yield (name, rewritten rows)."""
    kind = kinds(rows)
    for position in range(len(rows) + 1):
        for comment in ([], ["", "a comment"], ["", "", "", "x"], [" "]):
            yield "comment-row@%d" % position, rows[:position] + [comment] + rows[position:]
    yield "trailing-cells", [(row + [""] * (7 - len(row)) + ["note", "more"]) if row and row[0].strip() else row for row in rows]
    yield "trailing-empty-cells", [row + ["", "", ""] for row in rows]
    for style in (str.upper, str.lower):
        yield "marker-" + style.__name__, [[style(row[0])] + row[1:] if row else row for row in rows]
    yield "marker-padded", [[" " + row[0] + " "] + row[1:] if row and row[0] else row for row in rows]
    for style in (str.upper, str.lower, str.title):
        yield "property-names-" + style.__name__, [[row[0], style(row[1])] + row[2:] if k == "d" else row for row, k in zip(rows, kind)]
        yield "format-name-" + style.__name__, [[row[0], row[1], style(row[2])] if k == "d" and row[1].lower() == "format" else row for row, k in zip(rows, kind)]
    yield "property-names-underscore", [[row[0], row[1].replace(" ", "_")] + row[2:] if k == "d" else row for row, k in zip(rows, kind)]
    yield "field-name-padded", [[row[0], " " + row[1] + "  "] + row[2:] if k == "f" else row for row, k in zip(rows, kind)]
    if any(k == "f" and len(row) > 4 and row[4].strip() for row, k in zip(rows, kind)):
        # blanks around the text of a length cell mean nothing, like blanks around any other cell
        yield "length-padded", [row[:4] + [" " + row[4] + " "] + row[5:] if k == "f" and len(row) > 4 and row[4].strip() else row for row, k in zip(rows, kind)]
        yield "length-tab-in-front", [row[:4] + ["\t" + row[4]] + row[5:] if k == "f" and len(row) > 4 and row[4].strip() else row for row, k in zip(rows, kind)]
    if any(k == "d" and row[1].lower().replace("_", " ") == "allowed characters" for row, k in zip(rows, kind)):
        yield "allowed-characters-padded", [[row[0], row[1], "  " + row[2] + " "] + row[3:] if k == "d" and row[1].lower().replace("_", " ") == "allowed characters" else row for row, k in zip(rows, kind)]
    yield "empty-mark-lower", [row[:3] + [row[3].lower()] + row[4:] if k == "f" else row for row, k in zip(rows, kind)]
    property_rows = [i for i, (row, k) in enumerate(zip(rows, kind)) if k == "d" and row[1].lower() != "format"]
    if len(property_rows) >= 2:
        for permutation in itertools.islice(itertools.permutations(property_rows), 1, 7):
            rewritten = list(rows)
            for target, source in zip(property_rows, permutation):
                rewritten[target] = rows[source]
            yield "properties-permuted", rewritten
        # every pair of property rows exchanged, and the whole block reversed: a property is judged against the final settings only
        for a, b in itertools.combinations(property_rows, 2):
            rewritten = list(rows)
            rewritten[a], rewritten[b] = rows[b], rows[a]
            yield "properties-swapped", rewritten
        rewritten = list(rows)
        for target, source in zip(property_rows, reversed(property_rows)):
            rewritten[target] = rows[source]
        yield "properties-reversed", rewritten
    separators_matter = any(k == "d" and "separator" in row[1].lower() for row, k in zip(rows, kind)) and any(k == "f" and len(row) > 5 and row[5] == "Decimal" for row, k in zip(rows, kind))
    if property_rows and not separators_matter:
        # property rows moved behind the field rows (not when an example depends on a separator declared by them)
        moved = [row for i, row in enumerate(rows) if i not in property_rows]
        last_field = max(i for i, k in enumerate(kinds(moved)) if k == "f")
        yield "properties-after-fields", moved[: last_field + 1] + [rows[i] for i in property_rows] + moved[last_field + 1:]


# ---- single structural defects -----------------------------------------------------------------
def defects(base):
    """Yield (name, rows, expected 1-based row of the rejection or None)."""
    rows = base["rows"]
    fmt = base["fmt"]
    kind = kinds(rows)
    format_row = next(i for i, (row, k) in enumerate(zip(rows, kind)) if k == "d")
    first_field = next(i for i, k in enumerate(kind) if k == "f")
    field_rows = [i for i, k in enumerate(kind) if k == "f"]
    check_rows = [i for i, k in enumerate(kind) if k == "c"]
    property_rows = [i for i, k in enumerate(kind) if k == "d" and i != format_row]

    def replaced(index, row):
        return rows[:index] + [row] + rows[index + 1:]

    def inserted(index, row):
        return rows[:index] + [row] + rows[index:]

    yield "first-data-format-row-not-format", replaced(format_row, ["D", "Header", "1"]), format_row + 1
    yield "unknown-format", replaced(format_row, ["D", "Format", "xml"]), format_row + 1
    yield "empty-format", replaced(format_row, ["D", "Format", ""]), format_row + 1
    for position in range(format_row + 1, len(rows) + 1):
        yield "format-twice", inserted(position, ["D", "Format", fmt]), position + 1
    for position in property_rows or [format_row + 1]:
        target = position if position in property_rows else None
        for name, row in (("empty-property-name", ["D", "", "1"]), ("unknown-property-name", ["D", "Colour", "red"]), ("inapplicable-property", ["D"] + INAPPLICABLE[fmt]),
                          ("unknown-property-name:method", ["D", "validate", "1"]), ("unknown-property-name:method", ["D", "Set Property", "1"]), ("unknown-property-name:method", ["D", "__class__", "1"]),
                          ("unknown-property-name:method", ["D", " validated bool", "true"]), ("unknown-property-name:attribute", ["D", "location", "here"]),
                          ("invalid-property-value", ["D", "Header", "minus one"])):
            if target is not None:
                yield name, replaced(position, row), position + 1
            else:
                yield name, inserted(position, row), position + 1
    # a value outside the documented set, for every property of the format: rejected at that very row
    for name, value in INVALID_VALUES.get(fmt, ()):
        yield "invalid-value:%s" % name.lower().replace(" ", "-"), inserted(format_row + 1, ["D", name, value]), format_row + 2
    yield "no-fields", [row for row, k in zip(rows, kind) if k not in ("f", "c")], None
    yield "no-format-at-all", [row for row, k in zip(rows, kind) if k == ""], None
    yield "field-before-format", inserted(format_row, rows[first_field]), format_row + 1
    for position in field_rows:
        row = rows[position]
        field_type = row[5]

        def with_cell(index, value, row=row):
            return row[:index] + [value] + row[index + 1:]

        yield "duplicate-field-name", inserted(position + 1, row), position + 2
        for name, value in (("empty-field-name", ""), ("blank-field-name", "  "), ("digit-led-field-name", "1abc"), ("blank-in-field-name", "a b"), ("non-ascii-field-name", "näme"),
                            ("keyword-field-name", "for"), ("underscore-led-field-name", "_a"), ("hyphen-in-field-name", "a-b"),
                            ("fullwidth-digit-in-field-name", "total\uff11"), ("arabic-digit-in-field-name", "x\u0663y"), ("superscript-in-field-name", "m\xb2"), ("non-ascii-letter-led-field-name", "\xe4b"),
                            ("fullwidth-letter-in-field-name", "a\uff42"), ("dotless-i-in-field-name", "\u0131d"), ("kelvin-sign-in-field-name", "\u212a1")):
            yield name, replaced(position, with_cell(1, value)), position + 1
        if position == field_rows[0]:
            # every Python keyword, also the capitalised ones (False, None, True)
            for word in keyword.kwlist:
                yield "keyword-field-name:" + word, replaced(position, with_cell(1, word)), position + 1
        yield "bad-empty-mark", replaced(position, with_cell(3, "Y")), position + 1
        yield "unknown-field-type", replaced(position, with_cell(5, "Nope")), position + 1
        yield "malformed-field-type", replaced(position, with_cell(5, "Te-xt")), position + 1
        for name, value in (("length-letters", "abc"), ("length-two-ellipses", "1...2...3"), ("length-lower-greater-upper", "5...1")):
            if not (field_type == "Constant"):
                yield name, replaced(position, with_cell(4, value)), position + 1
        if fmt == "fixed":
            for name, value in (("fixed-without-length", ""), ("fixed-length-range", "1...3"), ("fixed-length-zero", "0"), ("fixed-length-open", "3..."), ("fixed-two-lengths", "2, 4")):
                yield name, replaced(position, with_cell(4, value)), position + 1
            if field_type != "Constant":
                # the same without an example, and with lengths the example would fit: nothing but the length itself can be the reason
                width = int(row[4])
                for name, value in (("fixed-length-range", "%d...%d" % (width, width + 2)), ("fixed-length-range", "1...%d" % width), ("fixed-length-zero", "0"), ("fixed-length-open", "%d..." % width),
                                    ("fixed-length-open", "...%d" % width), ("fixed-two-lengths", "%d, %d" % (width, width + 2))):
                    if value != "1...1":  # a range from 1 to 1 is one exact length
                        yield name + ":no-example", replaced(position, row[:2] + [""] + row[3:4] + [value] + row[5:]), position + 1
        elif field_type not in ("Constant",):
            yield "length-negative", replaced(position, with_cell(4, "-1")), position + 1
            for value in ("-1", "-1...", "...-1", "-3...-1", "-1...5"):
                yield "length-negative:no-example", replaced(position, row[:2] + [""] + row[3:4] + [value] + row[5:]), position + 1
        if fmt != "fixed" and field_type not in ("Constant", "Integer", "Decimal"):
            # lower limit above upper limit, also with an upper limit of 0, without an example
            for value in ("5...0", "1...0", "20...0", "9...3", "2...1", "0...3, 9...8"):
                yield "length-lower-greater-upper:no-example", replaced(position, row[:2] + [""] + row[3:4] + [value] + row[5:]), position + 1
        if fmt != "fixed" and field_type not in ("Constant", "Integer"):
            # items that overlap or merely share one limit value (limits are inclusive); a later item that encloses an earlier one
            # ("3...5, 1...9") is left out: the statement does not say what happens to it (the implementation lets it pass)
            for value in ("1...5, 3...9", "1...9, 3...5", "1...5, 5...9", "4, 4", "...6, 6...", "2..., 1...2"):
                yield "length-overlapping-items", replaced(position, row[:2] + [""] + row[3:4] + [value] + row[5:]), position + 1
        rule_defects = {
            "Integer": [("integer-rule-letters", "abc"), ("integer-rule-lower-greater-upper", "9...1"), ("integer-rule-overlapping-items", "0...5, 3...9"),
                        ("integer-rule-overlapping-items", "0...5, 5...9"), ("integer-rule-overlapping-items", "0...9, 7"), ("integer-rule-overlapping-items", "5..., ...5")],
            "Decimal": [("decimal-rule-letters", "abc"), ("decimal-rule-overlapping-items", "0...5.5, 5.5...9"), ("decimal-rule-overlapping-items", "0...9, 1.5...2")],
            "Choice": [("choice-trailing-comma", '"a",'), ("choice-double-comma", '"a",,"b"'), ("choice-missing-comma", '"a" "b"'), ("choice-without-choices-not-empty", "")],
            "Constant": [("constant-two-tokens", '"K" "L"'), ("constant-empty-rule-not-marked-empty", "")],
            "RegEx": [("regex-unbalanced", "(a")],
            "DateTime": [("datetime-part-twice", rule) for rule in ("DD.MM.YYYY DD", "YYYY-MM-DD hh:MM:ss", "hh:mm:hh", "hh:mm:ss mm", "YYYY-MM-DD hh:mm:ss.ss", "YYYY-mm-DD hh:mm:ss", "YY-MM-DD YY", "DD.MM.YYYY YYYY")],
        }
        for name, value in rule_defects.get(field_type, []):
            if name == "choice-without-choices-not-empty" and row[3].strip().upper() == "X":
                continue  # a Choice that may be empty needs no choices
            yield name, replaced(position, with_cell(6, value)), position + 1
            if field_type == "DateTime":
                yield name + ":no-example", replaced(position, row[:2] + [""] + row[3:6] + [value]), position + 1
        if field_type == "Constant":
            yield "constant-marked-empty-with-rule", replaced(position, with_cell(3, "X")), position + 1
        if field_type == "Integer" and fmt != "fixed":
            # an Integer field whose range would come from its length: the length itself is no positive range
            for value in ("0", "-1...5", "...0", "-3...3", "0...0", "-2"):
                yield "integer-length-not-positive:no-rule", replaced(position, row[:2] + [""] + row[3:4] + [value, "Integer", ""]), position + 1
        if field_type == "Integer":
            yield "length-inconsistent-with-integer-rule", replaced(position, row[:4] + ["1" if fmt != "fixed" else "1", "Integer", "10...99"]), position + 1
        bad_example = {"Integer": "abc", "Text": "x" * 11 if fmt != "fixed" else "x" * 11, "Choice": "q", "DateTime": "2000-02-31", "Decimal": "1,x", "Pattern": "xyz", "RegEx": "12", "Constant": "Q"}[field_type]
        yield "example-rejected-by-its-field", replaced(position, with_cell(2, bad_example)), position + 1
    if check_rows:
        first_check = check_rows[0]
        yield "check-before-fields", inserted(first_field, rows[first_check]), first_field + 1
        for position in check_rows:
            row = rows[position]
            yield "empty-check-description", replaced(position, [row[0], ""] + row[2:]), position + 1
            # an empty or blank description cell in front of an otherwise complete check (all cells one column to the right)
            yield "empty-check-description:shifted", replaced(position, [row[0], ""] + row[1:]), position + 1
            yield "empty-check-description:shifted", replaced(position, [row[0], "  "] + row[1:]), position + 1
            # an empty rule cell followed by a cell that would be a rule: cells beyond the parsed columns are ignored, the rule is empty
            yield "empty-check-rule-followed-by-a-cell", replaced(position, row[:3] + [""] + row[3:]), position + 1
            yield "duplicate-check-description", inserted(position + 1, row), position + 2
            yield "unknown-check-type", replaced(position, row[:2] + ["Nope"] + row[3:]), position + 1
            yield "missing-check-type", replaced(position, row[:2]), position + 1
            if row[2] == "IsUnique":
                first = row[3].split(",")[0].strip()
                for name, rule in (("isunique-unknown-field", "nope"), ("isunique-duplicate-field", "%s, %s" % (first, first)), ("isunique-missing-comma", "%s %s" % (first, first)),
                                   ("isunique-leading-comma", ", " + first), ("isunique-double-comma", "%s,, %s" % (first, first)), ("isunique-empty-rule", ""),
                                   # rules the tokenizer itself cannot split: stray quote, unbalanced bracket, dangling backslash
                                   ("isunique-stray-quote", "%s, '%s" % (first, first)), ("isunique-open-bracket", "(%s" % first), ("isunique-dangling-backslash", first + "\\"),
                                   ("isunique-number-as-field", "%s, 3" % first), ("isunique-string-as-field", '"%s"' % first)):
                    yield name, replaced(position, row[:3] + [rule]), position + 1
            else:
                for name, rule in (("distinctcount-unknown-field", "nope < 3"), ("distinctcount-non-boolean", "kind + 3"), ("distinctcount-broken-expression", "kind < "),
                                   ("distinctcount-not-starting-with-field", "3 > kind"), ("distinctcount-empty-rule", ""),
                                   ("distinctcount-stray-quote", "kind < 10'"), ("distinctcount-open-bracket", "kind < (2 * 5"), ("distinctcount-dangling-backslash", "kind < 3\\")):
                    yield name, replaced(position, row[:3] + [rule]), position + 1
    for position in range(len(rows)):
        if rows[position] and rows[position][0].strip():
            yield "unknown-row-marker", replaced(position, ["x"] + rows[position][1:]), position + 1
            break
    yield "unknown-row-marker-comment", inserted(len(rows), ["note", "text"]), len(rows) + 1


SOUND_NAMES = ["Class", "IMPORT", "If", "none", "true", "Lambda", "class_", "for1", "FALSE", "a", "Z9_", "x" * 40]


def extra_fields(base):
    """Yield (name, rows, expected field names): one more Text field whose sound name merely resembles a keyword."""
    rows = base["rows"]
    last_field = max(i for i, k in enumerate(kinds(rows)) if k == "f")
    for name in SOUND_NAMES:
        row = ["F", name, "", "X", "3" if base["fmt"] == "fixed" else "", "Text", ""]
        yield "sound-field-name:" + name, rows[: last_field + 1] + [row] + rows[last_field + 1:], base["fields"] + [name]
