"""Reference model of a field declaration: guards (allowed characters, empty, length) and the
per-type value rule.  Declarations are *structures*; rule/length texts are rendered from them,
the model judges the structure.  Never imports cutplace."""
import datetime
import decimal
import re

from mc.models import intervals

TEXT_LIKE = ("Choice", "Constant", "Pattern", "RegEx", "Text")
EMPTY_VALUE = {"Integer": None, "Decimal": None, "DateTime": None, "Choice": "", "Constant": "", "Pattern": "", "RegEx": "", "Text": ""}
MIN32, MAX32 = -(2**31), 2**31 - 1
DEFAULT_DECIMAL_LIMIT = decimal.Decimal("9999999999999999999.999999999999")


# ---- rendering -------------------------------------------------------------------------
def render_items(items):
    """items: list of [lo, hi, single] with ints/None (or decimal strings) -> range text."""
    if not items:
        return ""
    parts = []
    for lo, hi, single in items:
        if single:
            parts.append(str(lo))
        else:
            parts.append(("" if lo is None else str(lo)) + "..." + ("" if hi is None else str(hi)))
    return ", ".join(parts)


def quoted_token(text):
    """The text as a quoted string token; a value holding a double quote is written in single quotes."""
    if '"' in text:
        assert "'" not in text, "values holding both kinds of quotes are not generated"
        return "'%s'" % text
    return '"%s"' % text


def render_rule(field_type, rule):
    if rule is None:
        return ""
    if field_type in ("Integer", "Decimal"):
        return render_items(rule["items"])
    if field_type == "Choice":
        if rule.get("quoted", True):
            return ", ".join(quoted_token(c) for c in rule["choices"])
        return ", ".join(rule["choices"])
    if field_type == "Constant":
        token = rule["token"]
        return quoted_token(token) if rule.get("style", "str") == "str" else token
    if field_type == "DateTime":
        return render_layout(rule["parts"], rule["seps"])
    if field_type == "Pattern":
        return "".join(glob_token_text(t) for t in rule["tokens"])
    if field_type == "RegEx":
        return rx_text(rule["ast"])
    if field_type == "Text":
        return rule.get("text", "") if isinstance(rule, dict) else ""
    raise ValueError(field_type)


# ---- guards ---------------------------------------------------------------------------------
def length_accepts(length_items, count):
    if not length_items:
        return True
    return intervals.accepts([(lo, hi) for lo, hi, _ in length_items], count)


def guards(decl, cell):
    """Outcome of the guards for one cell: 'chars' (disallowed character), 'empty-ok',
    'empty-rejected', 'length', or None (goes on to the type rule with the returned payload)."""
    fixed = decl["fmt"] == "fixed"
    allowed = decl.get("allowed")
    if allowed:
        allowed_items = [(lo, hi) for lo, hi, _ in allowed]
        if fixed and cell != "" and cell.strip(" ") == "" and not intervals.accepts(allowed_items, 32):
            # a blank-only fixed cell while blanks are not allowed: "empty" and "contains a disallowed character"
            # contradict each other - not settled by the statement, not judged
            return "grey", None
        for character in cell:
            if not intervals.accepts(allowed_items, ord(character)):
                return "chars", None
    if fixed and cell.strip(" ") != "" and cell.strip() == "":
        # only white space, but not only blanks (tabs, no-break spaces that are allowed characters): "empty" is not settled
        return "grey", None
    is_empty = (cell.strip(" ") == "") if fixed else (cell == "")
    if is_empty:
        if fixed and len(cell) > decl["width"]:
            return "length", None
        return ("empty-ok" if decl["empty"] else "empty-rejected"), None
    if fixed:
        if len(cell) > decl["width"]:
            return "length", None
        return None, cell.strip()
    if not length_accepts(decl.get("length"), len(cell)):
        return "length", None
    return None, cell


# ---- per-type value models -----------------------------------------------------------------
_INT_RE = re.compile(r"-?(0|[1-9][0-9]*)\Z")


def exotic_number_text(payload):
    """Spellings the statement does not settle: white space around the number (Python's converters ignore it), non-ASCII digits, a plus sign, redundant leading zeros, underscores."""
    if payload != payload.strip() or any(character.isdigit() and not character.isascii() for character in payload):
        return True
    unsigned = payload[1:] if payload[:1] in "+-" else payload
    # a plus sign, redundant leading zeros, underscores between digits: Python's converters take them, "literal" / "number" do not say
    return payload[:1] == "+" or (len(unsigned) > 1 and unsigned[0] == "0" and unsigned[1].isdigit()) or "_" in payload


def integer_model(decl, payload):
    if exotic_number_text(payload):
        return None, None
    if not _INT_RE.match(payload):
        return False, None
    number = int(payload)
    rule = decl.get("rule")
    if rule:
        ok = intervals.accepts([(lo, hi) for lo, hi, _ in rule["items"]], number)
    elif decl["fmt"] == "fixed":
        ok = len(str(number)) <= decl["width"]
    elif decl.get("length"):
        ok = length_accepts(decl["length"], len(str(number)))
    else:
        ok = MIN32 <= number <= MAX32
    return ok, number


def decimal_model(decl, payload):
    """payload must be: sign? digits (grouped by thousands separator or not) [decimal-separator digits]."""
    dec_sep = decl.get("dec_sep", ".")
    thou_sep = decl.get("thou_sep", "")
    if exotic_number_text(payload):
        return None, None
    text = payload
    sign = ""
    if text.startswith("-"):
        sign, text = "-", text[1:]
    # scientific notation: a mantissa written with the separators, then e / E, an optional sign and ASCII digits
    exponent = ""
    match = re.fullmatch(r"(?s)(.*?)([eE][+-]?[0-9]+)", text)
    if match and "e" not in (dec_sep + thou_sep).lower():
        text, exponent = match.group(1), match.group(2)
        if abs(int(exponent[1:])) > 60:
            return None, None  # absurd magnitudes: not judged
    if dec_sep in text:
        integer_part, _, fraction = text.partition(dec_sep)
        if fraction == "":
            return None, None  # "1." - grey zone, not judged
        if not fraction.isdigit() or not fraction.isascii():
            return False, None
    else:
        integer_part, fraction = text, ""
    if thou_sep:
        groups = integer_part.split(thou_sep)
    else:
        groups = [integer_part]
    if len(groups) > 1 and any(g == "" for g in groups) and all(g == "" or (g.isdigit() and g.isascii()) for g in groups):
        return None, None  # a thousands separator with nothing before or behind it ("1." / ".1" / "1..000"): malformed grouping, grey zone like wrong group sizes
    if any((not g.isdigit()) or (not g.isascii()) for g in groups):
        return False, None
    if len(groups) > 1 and (not (1 <= len(groups[0]) <= 3) or any(len(g) != 3 for g in groups[1:])):
        return None, None  # malformed grouping: grey zone, not judged
    digits = "".join(groups)
    value = decimal.Decimal(sign + digits + ("." + fraction if fraction else "") + exponent)
    rule = decl.get("rule")
    if rule:
        items = [(None if lo is None else decimal.Decimal(lo), None if hi is None else decimal.Decimal(hi)) for lo, hi, _ in rule["items"]]
        ok = intervals.accepts(items, value)
    else:
        ok = value.copy_abs() <= DEFAULT_DECIMAL_LIMIT  # (unary minus would round the 31-digit limit to the 28 digits of the context)
    return ok, value


def choice_model(decl, payload):
    return payload in decl["rule"]["choices"], payload


def constant_model(decl, payload):
    return payload == decl["rule"]["token"], payload


# DateTime ------------------------------------------------------------------------------------
DATE_PARTS = {"DD": ("d", r"(\d{1,2})"), "MM": ("m", r"(\d{1,2})"), "YYYY": ("Y", r"(\d{4})"), "YY": ("y", r"(\d{2})"),
              "hh": ("H", r"(\d{1,2})"), "mm": ("M", r"(\d{1,2})"), "ss": ("S", r"(\d{1,2})")}


def render_layout(parts, seps):
    text = ""
    for index, part in enumerate(parts):
        if index > 0:
            text += seps[index - 1]
        text += part
    return text


def render_date_cell(parts, seps, values, pad=True):
    text = ""
    for index, part in enumerate(parts):
        if index > 0:
            text += seps[index - 1]
        value = values[part]
        if part == "YYYY":
            text += "%04d" % value
        elif part == "YY":
            text += "%02d" % (value % 100)
        else:
            text += ("%02d" % value) if pad else str(value)
    return text


def datetime_model(decl, payload):
    parts, seps = decl["rule"]["parts"], decl["rule"]["seps"]
    if decl["fmt"] == "excel" and not any(p in parts for p in ("hh", "mm", "ss")) and payload.endswith(" 00:00:00"):
        payload = payload[: -len(" 00:00:00")]
    pattern = ""
    names = []
    for index, part in enumerate(parts):
        if index > 0:
            pattern += re.escape(seps[index - 1])
        pattern += DATE_PARTS[part][1]
        names.append(DATE_PARTS[part][0])
    match = re.fullmatch(pattern, payload, re.ASCII)
    if not match:
        return False, None
    v = dict(zip(names, (int(g) for g in match.groups())))
    if "Y" in v:
        year = v["Y"]
        if not 1 <= year <= 9999:
            return False, None
    elif "y" in v:
        year = 2000 + v["y"] if v["y"] < 69 else 1900 + v["y"]
    else:
        year = 1904  # without a year strptime assumes a leap year for 29.02 (1900 is not one: judged against a leap year)
    month = v.get("m", 1)
    day = v.get("d", 1)
    try:
        datetime.date(year, month, day)
    except ValueError:
        return False, None
    if not (0 <= v.get("H", 0) <= 23 and 0 <= v.get("M", 0) <= 59):
        return False, None
    if "S" in v and v["S"] > 59:
        if v["S"] <= 61:
            return None, None  # leap seconds: grey zone
        return False, None
    return True, v


# Pattern (glob) -------------------------------------------------------------------------------
def glob_token_text(token):
    if isinstance(token, str):
        return token
    kind, body, negated = token
    return "[" + ("!" if negated else "") + body + "]"


def _set_contains(body, character):
    index = 0
    found = False
    while index < len(body):
        if index + 2 < len(body) and body[index + 1] == "-":
            if body[index] <= character <= body[index + 2]:
                found = True
            index += 3
        else:
            if body[index] == character:
                found = True
            index += 1
    return found


def glob_model(decl, payload):
    tokens = decl["rule"]["tokens"]
    text = payload.lower()

    def match(i, j):
        if i == len(tokens):
            return j == len(text)
        token = tokens[i]
        if token == "*":
            return any(match(i + 1, k) for k in range(j, len(text) + 1))
        if j >= len(text):
            return False
        if token == "?":
            return match(i + 1, j + 1)
        if isinstance(token, str):
            return text[j] == token.lower() and match(i + 1, j + 1)
        _, body, negated = token
        return (_set_contains(body.lower(), text[j]) != bool(negated)) and match(i + 1, j + 1)

    return match(0, 0), payload


# RegEx subset ---------------------------------------------------------------------------------
def rx_text(node):
    kind = node[0]
    if kind == "lit":
        return node[1]
    if kind == "any":
        return "."
    if kind == "set":
        return "[" + ("^" if node[1] else "") + node[2] + "]"
    if kind == "seq":
        return "".join(rx_text(child) for child in node[1])
    if kind == "alt":
        return "(" + "|".join(rx_text(child) for child in node[1]) + ")"
    if kind == "group":
        return "(" + rx_text(node[1]) + ")"
    if kind in "*+?":
        return rx_text(node[1]) + kind
    raise ValueError(node)


def rx_model(decl, payload):
    text = payload.lower()

    def match(node, j, k):
        kind = node[0]
        if kind == "lit":
            return j < len(text) and text[j] == node[1].lower() and k(j + 1)
        if kind == "any":
            return j < len(text) and text[j] != "\n" and k(j + 1)
        if kind == "set":
            return j < len(text) and (_set_contains(node[2].lower(), text[j]) != bool(node[1])) and k(j + 1)
        if kind == "seq":
            def go(index, position):
                if index == len(node[1]):
                    return k(position)
                return match(node[1][index], position, lambda nxt: go(index + 1, nxt))
            return go(0, j)
        if kind == "alt":
            return any(match(branch, j, k) for branch in node[1])
        if kind == "group":
            return match(node[1], j, k)
        if kind == "?":
            return match(node[1], j, k) or k(j)
        if kind == "*":
            def star(position):
                return match(node[1], position, lambda nxt: nxt > position and star(nxt)) or k(position)
            return star(j)
        if kind == "+":
            def star(position):
                return match(node[1], position, lambda nxt: nxt > position and star(nxt)) or k(position)
            return match(node[1], j, star)
        raise ValueError(node)

    return match(decl["rule"]["ast"], 0, lambda position: True), payload


def text_model(decl, payload):
    return True, payload


VALUE_MODELS = {"Integer": integer_model, "Decimal": decimal_model, "Choice": choice_model, "Constant": constant_model,
                "DateTime": datetime_model, "Pattern": glob_model, "RegEx": rx_model, "Text": text_model}


def validate(decl, cell):
    """-> (verdict, value): verdict 'accept' / 'reject' / None (grey zone, not judged); for accept the
    value is the native value (for DateTime: dict of the fields the layout defines)."""
    guard, payload = guards(decl, cell)
    if guard == "grey":
        return None, None
    if guard == "empty-ok":
        return "accept", EMPTY_VALUE[decl["type"]]
    if guard is not None:
        return "reject", guard
    ok, value = VALUE_MODELS[decl["type"]](decl, payload)
    if ok is None:
        return None, None
    return ("accept", value) if ok else ("reject", "rule")


def same_value(field_type, expected, observed):
    """Compare a model value with the value the implementation returned."""
    if field_type == "DateTime" and isinstance(expected, dict):
        try:
            got = {"Y": observed.tm_year, "m": observed.tm_mon, "d": observed.tm_mday, "H": observed.tm_hour, "M": observed.tm_min, "S": observed.tm_sec}
        except AttributeError:
            return False
        for key, value in expected.items():
            if key == "y":
                if got["Y"] % 100 != value:
                    return False
            elif got[key] != value:
                return False
        return True
    if expected is None:
        return observed is None
    return type(observed) is type(expected) and observed == expected
