"""Specification of fixed-width reading.  Never imports cutplace.

rows_reproduce(text, widths, delimiter, rows): the property-level oracle for returned rows —
  every item has its declared width and text == r1 d1 r2 d2 ... rn [dn] for SOME choice of
  permitted delimiters d_i (the final one optional); decided by a small dynamic program.
canonical_*: the canonical automaton — records never contain CR/LF; an input it accepts is
  well-formed beyond doubt and must be accepted by the reader.
greedy_*: the deterministic streaming transducer used only as the specification half of the
  product state in the fixpoint search.
"""

ANY = ("\n", "\r", "\r\n")


def permitted(delimiter):
    if delimiter is None:
        return ("",)
    if delimiter == "any":
        return ANY
    return (delimiter,)


def rows_reproduce(text, widths, delimiter, rows):
    for row in rows:
        if len(row) != len(widths) or any(len(item) != width for item, width in zip(row, widths)):
            return False
    if not rows:
        return text == ""
    options = permitted(delimiter)
    positions = {0}
    for index, row in enumerate(rows):
        record = "".join(row)
        after_record = {p + len(record) for p in positions if text.startswith(record, p)}
        if not after_record:
            return False
        positions = set()
        last = index == len(rows) - 1
        for p in after_record:
            for option in options:
                if text.startswith(option, p):
                    positions.add(p + len(option))
            if last:
                positions.add(p)
    return len(text) in positions


# canonical automaton: state = (phase, k) with phase in rec/delim/cr/crlf2/dead; k = characters of the current record
def canonical_start():
    return ("rec", 0)


def canonical_step(state, character, total, delimiter):
    phase, k = state
    if phase == "dead":
        return state
    newline = character in "\r\n"
    if phase == "cr":  # under 'any' after CR: LF completes the delimiter, otherwise the record starts
        if character == "\n":
            return ("rec", 0)
        phase = "rec"
    if phase == "delim":
        if delimiter is None:
            phase = "rec"
        elif delimiter == "any":
            if character == "\r":
                return ("cr", 0)
            if character == "\n":
                return ("rec", 0)
            return ("dead", 0)
        elif delimiter == "\r\n":
            return ("crlf2", 0) if character == "\r" else ("dead", 0)
        else:
            return ("rec", 0) if character == delimiter else ("dead", 0)
    if phase == "crlf2":
        return ("rec", 0) if character == "\n" else ("dead", 0)
    if newline:
        return ("dead", 0)
    k += 1
    if k == total:
        return ("delim", 0)
    return ("rec", k)


def canonical_accepts(state):
    phase, k = state
    return phase in ("delim", "cr") or (phase == "rec" and k == 0)


def canonical_well_formed(text, total, delimiter):
    state = canonical_start()
    for character in text:
        state = canonical_step(state, character, total, delimiter)
    return canonical_accepts(state)


def well_formed(text, total, delimiter):
    """Must the input be accepted?  With one fixed delimiter (or none) records of `total` characters and delimiters alternate
    without any choice, whatever characters the records hold, so the decomposition is unique: it exists or it does not.  Only
    under 'any' can CR LF be read in two ways; there the canonical form (no CR / LF inside records) is required."""
    if delimiter == "any":
        return canonical_well_formed(text, total, delimiter)
    position = 0
    while position < len(text):
        if len(text) - position < total:
            return False
        position += total
        if position == len(text):
            return True  # the final delimiter is optional
        if delimiter is not None:
            if not text.startswith(delimiter, position):
                return False
            position += len(delimiter)
    return True


# greedy transducer: like the canonical automaton but records may contain anything; keeps the partial record text
def greedy_start():
    return ("rec", "")


def greedy_step(state, character, total, delimiter):
    phase, partial = state
    if phase == "dead":
        return state
    if phase == "cr":
        if character == "\n":
            return ("rec", "")
        phase = "rec"
    if phase == "delim":
        if delimiter is None:
            phase = "rec"
        elif delimiter == "any":
            if character == "\r":
                return ("cr", "")
            if character == "\n":
                return ("rec", "")
            return ("dead", "")
        elif delimiter == "\r\n":
            return ("crlf2", "") if character == "\r" else ("dead", "")
        else:
            return ("rec", "") if character == delimiter else ("dead", "")
    if phase == "crlf2":
        return ("rec", "") if character == "\n" else ("dead", "")
    partial += character
    if len(partial) == total:
        return ("delim", "")
    return ("rec", partial)
