"""Reference model for range descriptions: a list of (lo, hi) items, None = open.
Also renders a structure in every documented spelling.  Never imports cutplace."""
import itertools

SEPARATORS = ["...", ":", "…"]
SYMBOLIC = {9: "tab", 10: "lf", 11: "vt", 12: "ff", 13: "cr"}


def accepts(items, value):
    if items is None:
        return True
    for lo, hi in items:
        if (lo is None or lo <= value) and (hi is None or value <= hi):
            return True
    return False


def lower_limit(items):
    if not items or any(lo is None for lo, _ in items):
        return None
    return min(lo for lo, _ in items)


def upper_limit(items):
    if not items or any(hi is None for _, hi in items):
        return None
    return max(hi for _, hi in items)


def overlap(a, b):
    alo, ahi = a
    blo, bhi = b
    left = alo if blo is None else (blo if alo is None else max(alo, blo))
    right = ahi if bhi is None else (bhi if ahi is None else min(ahi, bhi))
    if (alo is None and blo is None) or (ahi is None and bhi is None):
        return True
    return left is None or right is None or left <= right


def any_overlap(items):
    return any(overlap(a, b) for a, b in itertools.combinations(items, 2))


def limit_spellings(value):
    """All documented spellings of one integer limit; index 0 is the default (decimal)."""
    sign = "-" if value < 0 else ""
    magnitude = abs(value)
    result = ["%s%d" % (sign, magnitude), "%s0x%x" % (sign, magnitude), "%s0X%X" % (sign, magnitude)]
    if value in SYMBOLIC:
        name = SYMBOLIC[value]
        result += [name, name.title(), name.upper()]
    if 32 < value < 0x110000 and value not in (34, 39, 92) and not (0xD800 <= value < 0xE000) and chr(value).isprintable():
        result += ["'%s'" % chr(value), '"%s"' % chr(value)]
    if value in (9, 0xA0, 0x2003, 0x3000):  # white space other than the blank, written literally between quotes
        result += ["'%s'" % chr(value), '"%s"' % chr(value)]
    if value == 34:  # the quote characters and the backslash: inside the other kind of quotes, or escaped
        result += ["'\"'", '"\\""']
    elif value == 39:
        result += ['"\'"', "'\\''"]
    elif value == 92:
        result += ['"\\\\"', "'\\\\'"]
    if 0 <= value < 256:
        result.append('"\\x%02x"' % value)
        escapes = {9: "\\t", 10: "\\n", 13: "\\r"}
        if value in escapes:
            result.append("'%s'" % escapes[value])
    elif 256 <= value < 0x10000:
        result.append('"\\u%04x"' % value)
    return result


def render_item(item, separator, around, spell_lo, spell_hi, single):
    lo, hi = item
    pad = " " if around else ""
    if single:
        assert lo == hi and lo is not None
        return spell_lo
    text = ""
    if lo is not None:
        text += spell_lo + pad
    text += separator
    if hi is not None:
        text += pad + spell_hi
    return text


BLANKS = [(False, ", "), (False, ","), (True, ", "), (False, " , "), (True, " , ")]


def render(items, singles, separator="...", blanks=0, spellings=None, order=None):
    """items: list of (lo, hi); singles[i]: render item i as a single value;
    blanks: index into BLANKS (blank around the separator?, text of the comma);
    spellings: per item (index_lo, index_hi) into limit_spellings; order: permutation."""
    pad, comma = BLANKS[blanks]
    parts = []
    for index, item in enumerate(items):
        lo, hi = item
        choice = spellings[index] if spellings else (0, 0)
        spell_lo = limit_spellings(lo)[choice[0]] if lo is not None else None
        spell_hi = limit_spellings(hi)[choice[1]] if hi is not None else None
        parts.append(render_item(item, separator, pad, spell_lo, spell_hi, singles[index]))
    if order:
        parts = [parts[k] for k in order]
    return comma.join(parts)
