"""Independent OpenDocument spreadsheet producer (zipfile + string templates) with feature
switches, and an independent decoder used for the producer's self-check.  Never imports cutplace.

Feature switches (dict f):
  col_runs      compress runs of equal adjacent cells with table:number-columns-repeated
  row_runs      compress runs of equal adjacent rows with table:number-rows-repeated
  all_spaces_as_s   write every blank as text:s (otherwise the first blank of a run inside text is literal)
  explicit_c    always write text:c, also for a single blank
  paragraphs    write a cell containing line breaks as several text:p (otherwise text:line-break)
  span_at / spans   split the text at that offset into a text:span ("head" or "tail")
  span_range / span_nested   wrap text[i:j] in a text:span (optionally with a nested span), literal text before and after
  link          the element around text[i:j] of span_range is a hyperlink (text:a) instead of a text:span
  empty_as_p    write an empty cell as <table:table-cell><text:p/></table:table-cell>
  encoding      XML encoding of content.xml (UTF-8, UTF-16, ISO-8859-1)
  annotations   every non-empty cell that is not part of a run carries a comment (office:annotation with paragraphs of its own)
  pretty        content.xml indented by a pretty printer (white space between table, row, cell and paragraph elements)
  sheet_names   names of the sheets (default S1, S2, ...)
  filler        extra non-table content (styles, settings) a real office suite would write
"""
import zipfile
from xml.etree import ElementTree
from xml.sax.saxutils import escape

NAMESPACES = (
    'xmlns:office="urn:oasis:names:tc:opendocument:xmlns:office:1.0" '
    'xmlns:style="urn:oasis:names:tc:opendocument:xmlns:style:1.0" '
    'xmlns:table="urn:oasis:names:tc:opendocument:xmlns:table:1.0" '
    'xmlns:text="urn:oasis:names:tc:opendocument:xmlns:text:1.0" '
    'xmlns:dc="http://purl.org/dc/elements/1.1/" '
    'xmlns:xlink="http://www.w3.org/1999/xlink"'
)
ANNOTATION = ('<office:annotation office:name="__Annotation__%d"><dc:creator>reviewer</dc:creator><dc:date>2024-01-01T00:00:00</dc:date>'
              "<text:p>asked for by accounting</text:p><text:p>second line</text:p></office:annotation>")
WHITESPACE = " \t\n"


def encode_text(text, f):
    out = []
    index = 0
    while index < len(text):
        character = text[index]
        if character == " ":
            end = index
            while end < len(text) and text[end] == " ":
                end += 1
            count = end - index
            literal_first = index > 0 and end < len(text) and not f.get("all_spaces_as_s")
            if literal_first:
                out.append(" ")
                count -= 1
            if count > 0:
                if count == 1 and not f.get("explicit_c"):
                    out.append("<text:s/>")
                else:
                    out.append('<text:s text:c="%d"/>' % count)
            index = end
        elif character == "\t":
            out.append("<text:tab/>")
            index += 1
        elif character == "\n":
            out.append("<text:line-break/>")
            index += 1
        else:
            out.append(escape(character))
            index += 1
    return "".join(out)


def encode_cell_content(text, f):
    if text == "":
        return "<text:p/>" if f.get("empty_as_p") else ""
    if f.get("paragraphs") and "\n" in text:
        return ("\n            " if f.get("pretty") else "").join("<text:p>%s</text:p>" % encode_text(p, f) for p in text.split("\n"))
    span_range = f.get("span_range")
    if span_range is not None and len(text) > span_range[0] + 1:
        # an inline element around text[i:j] (whatever it contains, also whitespace elements), with literal text before and after
        i, j = span_range[0], min(span_range[1], len(text))
        inner = encode_text(text[i:j], f)
        if f.get("span_nested") and j - i >= 2:
            middle = i + (j - i) // 2
            inner = "<text:span>%s</text:span>%s" % (encode_text(text[i:middle], f), encode_text(text[middle:j], f))
        if f.get("link"):
            # the inline element is a hyperlink, as an office suite stores a recognized address
            return '<text:p>%s<text:a xlink:href="http://example.com/" xlink:type="simple">%s</text:a>%s</text:p>' % (encode_text(text[:i], f), inner, encode_text(text[j:], f))
        return "<text:p>%s<text:span>%s</text:span>%s</text:p>" % (encode_text(text[:i], f), inner, encode_text(text[j:], f))
    at = f.get("span_at")
    if at is not None and 0 < at < len(text) and text[at - 1] not in WHITESPACE and text[at] not in WHITESPACE:
        head, tail = encode_text(text[:at], f), encode_text(text[at:], f)
        if f.get("spans") == "tail":
            return "<text:p>%s<text:span>%s</text:span></text:p>" % (head, tail)
        return "<text:p><text:span>%s</text:span>%s</text:p>" % (head, tail)
    return "<text:p>%s</text:p>" % encode_text(text, f)


def encode_row(cells, f):
    out = []
    index = 0
    while index < len(cells):
        end = index
        if f.get("col_runs"):
            while end + 1 < len(cells) and cells[end + 1] == cells[index]:
                end += 1
        count = end - index + 1
        attribute = ' table:number-columns-repeated="%s"' % f.get("col_count_text", count) if count > 1 or "col_count_text" in f else ""
        inner = encode_cell_content(cells[index], f)
        if f.get("annotations") and inner and count == 1:
            # a cell comment: its paragraphs belong to the annotation, not to the cell's content
            inner = ANNOTATION % index + inner
        cell_attributes = ' office:value-type="string"' if inner and f.get("filler") else ""
        if inner and f.get("pretty"):
            # indented like the output of an XML pretty printer: white space between the elements of a cell is no content
            out.append("<table:table-cell%s%s>\n            %s\n          </table:table-cell>" % (attribute, cell_attributes, inner))
        elif inner:
            out.append("<table:table-cell%s%s>%s</table:table-cell>" % (attribute, cell_attributes, inner))
        else:
            out.append("<table:table-cell%s/>" % attribute)
        index = end + 1
    return ("\n          " if f.get("pretty") else "").join(out)


def encode_table(rows, f, name):
    out = []
    index = 0
    while index < len(rows):
        end = index
        if f.get("row_runs"):
            while end + 1 < len(rows) and rows[end + 1] == rows[index]:
                end += 1
        count = end - index + 1
        attribute = ' table:number-rows-repeated="%s"' % f.get("row_count_text", count) if count > 1 or "row_count_text" in f else ""
        if f.get("pretty"):
            out.append("\n        <table:table-row%s>\n          %s\n        </table:table-row>" % (attribute, encode_row(rows[index], f)))
        else:
            out.append("<table:table-row%s>%s</table:table-row>" % (attribute, encode_row(rows[index], f)))
        index = end + 1
    columns = ""
    if f.get("filler"):
        width = max([len(r) for r in rows] + [1])
        columns = '<table:table-column table:number-columns-repeated="%d"/>' % width
    return '<table:table table:name="%s">%s%s</table:table>' % (escape(name), columns, "".join(out))


def content_xml(sheets, f):
    encoding = f.get("encoding", "UTF-8")
    names = f.get("sheet_names") or ["S%d" % (number + 1) for number in range(len(sheets))]
    tables = "".join(encode_table(rows, f, names[number % len(names)] + ("" if number < len(names) else str(number))) for number, rows in enumerate(sheets))
    filler = ""
    if f.get("filler"):
        filler = '<office:automatic-styles><style:style style:name="co1" style:family="table-column"/></office:automatic-styles>'
    xml = ('<?xml version="1.0" encoding="%s"?><office:document-content %s office:version="1.2">%s<office:body><office:spreadsheet>%s'
           "</office:spreadsheet></office:body></office:document-content>") % (encoding, NAMESPACES, filler, tables)
    return xml.encode(encoding)


def write_ods(path, sheets, f=None, raw_content=None, without_content=False):
    f = f or {}
    with zipfile.ZipFile(path, "w", zipfile.ZIP_DEFLATED) as archive:
        archive.writestr(zipfile.ZipInfo("mimetype"), "application/vnd.oasis.opendocument.spreadsheet")
        def member(name):
            info = zipfile.ZipInfo(name, date_time=(2020, 1, 1, 0, 0, 0))  # fixed time stamp: same bytes on every run
            info.compress_type = zipfile.ZIP_DEFLATED
            return info

        if not without_content:
            archive.writestr(member("content.xml"), raw_content if raw_content is not None else content_xml(sheets, f))
        archive.writestr(member("META-INF/manifest.xml"), '<?xml version="1.0"?><manifest:manifest xmlns:manifest="urn:oasis:names:tc:opendocument:xmlns:manifest:1.0"/>')


# ---- independent decoder (self-check of the producer) -----------------------------------------
T = "{urn:oasis:names:tc:opendocument:xmlns:table:1.0}"
X = "{urn:oasis:names:tc:opendocument:xmlns:text:1.0}"


def decode_text(element):
    text = element.text or ""
    for child in element:
        if child.tag == X + "s":
            text += " " * int(child.get(X + "c", "1"))
        elif child.tag == X + "tab":
            text += "\t"
        elif child.tag == X + "line-break":
            text += "\n"
        else:
            text += decode_text(child)
        text += child.tail or ""
    return text


def read_ods(path, sheet):
    with zipfile.ZipFile(path) as archive:
        root = ElementTree.fromstring(archive.read("content.xml"))
    table = root.findall(".//" + T + "table")[sheet - 1]
    rows = []
    for row in table.findall(T + "table-row"):
        cells = []
        for cell in row.findall(T + "table-cell"):
            value = "\n".join(decode_text(p) for p in cell.findall(X + "p"))
            cells += [value] * int(cell.get(T + "number-columns-repeated", "1"))
        rows += [list(cells) for _ in range(int(row.get(T + "number-rows-repeated", "1")))]
    return rows
