"""Reference model of the call protocol for user-defined field formats and checks: predicts the
recorded call log of a sequence of runs.  Never imports cutplace."""
from mc.models import fieldmodel


def hook(payload):
    """The recording value hook: vetoes values containing '!'."""
    return "!" not in payload


def check_names(count):
    """Descriptions of the recording checks: their alphabetical order is the reverse of the order they are declared in."""
    return ["k%d" % (count - 1 - i) for i in range(count)]


def predict_run(decls, check_rules, header, run):
    """run: {"kind": "reader"|"writer"|"reader_explicit_close", "mode", "limit", "table"}
    -> (log, alternatives for the end block) ; log entries as recorded by mc/recording.py"""
    fixed = decls[0]["fmt"] == "fixed"
    names = [d["name"] for d in decls]
    checks = check_names(len(check_rules))
    log = [[c, "reset"] for c in checks]
    mode = run.get("mode", "raise")
    limit = run.get("limit")
    writer = run["kind"] == "writer"
    stopped = False
    for number, row in enumerate(run["table"], 1):
        if number <= header:
            continue
        if limit is not None and number > limit and not writer:
            continue
        verdict = "ok"
        if len(row) != len(decls):
            verdict = "rejected"
        else:
            for cell, decl in zip(row, decls):
                # in fixed-width data the cell is validated as stored: padded with blanks to the field width
                guard, payload = fieldmodel.guards(decl, cell.ljust(decl["width"]) if fixed else cell)
                if guard == "grey":
                    raise ValueError("table contains a cell the statement does not settle: %r" % (cell,))
                if guard == "empty-ok":
                    continue
                if guard is not None:
                    verdict = "rejected"
                    break
                log.append([decl["name"], "value", payload])
                if not hook(payload):
                    verdict = "rejected"
                    break
            if verdict == "ok":
                stored = [c.ljust(d["width"]) for c, d in zip(row, decls)] if fixed else list(row)
                for check, rule in zip(checks, check_rules):
                    log.append([check, "row", stored])
                    if rule.startswith("veto:") and rule[5:] in [v.strip() for v in stored]:
                        verdict = "rejected"
                        break
        if verdict == "rejected" and mode == "raise" and not writer:
            stopped = True
            break
    # end of the run: end-of-data verdicts in declaration order (after a failing one, later ones may or may not be asked)
    end_alternatives = []
    prefix = []
    failing = None
    for check, rule in zip(checks, check_rules):
        prefix.append([check, "end"])
        if rule == "end" and failing is None:
            failing = len(prefix)
    if failing is None:
        end_alternatives.append(prefix)
    else:
        for cut in range(failing, len(prefix) + 1):
            end_alternatives.append(prefix[:cut])
    cleanup = [[c, "cleanup"] for c in checks]
    return log, end_alternatives, cleanup


def canonical(log):
    """Resets and cleanups are not ordered by the statement: sort each contiguous block."""
    result = []
    index = 0
    while index < len(log):
        kind = log[index][1]
        if kind in ("reset", "cleanup"):
            end = index
            while end < len(log) and log[end][1] == kind:
                end += 1
            result.extend(sorted(log[index:end]))
            index = end
        elif kind == "row":
            # what exactly a check receives for a fixed-width cell (padded or stripped) is not part of the statement
            result.append([log[index][0], "row", [str(v).strip() for v in log[index][2]]])
            index += 1
        else:
            result.append(log[index])
            index += 1
    return result


def matches(recorded, decls, check_rules, header, runs):
    """Does the recorded log equal one of the predicted logs for the run sequence?"""
    position = 0
    recorded = canonical(recorded)
    for run in runs:
        log, end_alternatives, cleanup = predict_run(decls, check_rules, header, run)
        log = canonical(log)
        if recorded[position:position + len(log)] != log:
            return False, {"expected_next": log, "got": recorded[position:position + len(log) + 2]}
        position += len(log)
        matched = False
        for alternative in sorted(end_alternatives, key=len, reverse=True):
            candidate = alternative + cleanup
            if recorded[position:position + len(candidate)] == canonical(candidate):
                # the next run starts with a reset block or the log ends here
                rest = recorded[position + len(candidate):position + len(candidate) + 1]
                if not rest or rest[0][1] == "reset" or not cleanup:
                    position += len(candidate)
                    matched = True
                    break
        if not matched:
            return False, {"expected_end_block_one_of": [a + cleanup for a in end_alternatives], "got": recorded[position:position + 2 * len(cleanup) + len(end_alternatives[0]) + 2]}
    if position != len(recorded):
        return False, {"expected": "end of log", "got": recorded[position:position + 6]}
    return True, None
