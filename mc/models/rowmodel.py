"""Reference model of reading a table under a CID: per-row verdicts with culprit, the
IsUnique / DistinctCount bookkeeping, header rows, validation limit and counters.
Composes the per-field model (fieldmodel).  Never imports cutplace."""
import operator
import re

from mc.models import fieldmodel

OPERATORS = {"<": operator.lt, "<=": operator.le, "==": operator.eq, "!=": operator.ne, ">=": operator.ge, ">": operator.gt}


def parse_distinct_rule(rule):
    match = re.fullmatch(r"\s*(\w+)\s*(<=|>=|==|!=|<|>)\s*(\d+)\s*", rule)
    return match.group(1), match.group(2), int(match.group(3))


def excel_normalize(table):
    """What a sheet written cell by cell holds: empty strings are not stored, every row is padded to
    the sheet width, trailing empty rows do not exist."""
    width = 0
    last_row = 0
    for number, row in enumerate(table, 1):
        for index, cell in enumerate(row, 1):
            if cell != "":
                width = max(width, index)
                last_row = number
    return [(list(row) + [""] * width)[:width] for row in table[:last_row]]


def stored_rows(fmt, decls, table):
    """The raw rows the reader produces for a table stored in format fmt (before validation)."""
    if fmt == "excel":
        return excel_normalize(table)
    if fmt == "fixed":
        return [[cell.ljust(decl["width"]) for cell, decl in zip(row, decls)] for row in table]
    return [list(row) for row in table]


class Run(object):
    """One validation run over raw rows."""

    def __init__(self, decls, checks, header=0, limit=None):
        self.decls = decls
        self.names = [d["name"] for d in decls]
        self.checks = []
        for description, check_type, rule in checks:
            if check_type == "IsUnique":
                self.checks.append(["IsUnique", description, [n.strip() for n in rule.split(",")], {}])
            else:
                field, op, number = parse_distinct_rule(rule)
                self.checks.append(["DistinctCount", description, (field, op, number), set()])
        self.header = header
        self.limit = limit
        self.row_number = 0
        self.accepted = 0
        self.rejected = 0

    keys_not_registered = 0

    def feed(self, row):
        """-> None (header row) | ("row", row) | ("rej", info)"""
        self.row_number += 1
        number = self.row_number
        if number <= self.header:
            return None
        if self.limit is not None and number > self.limit:
            self.accepted += 1
            return ("row", list(row))
        verdict = self.judge_row(row, number)
        if verdict is None:
            self.accepted += 1
            return ("row", list(row))
        self.rejected += 1
        return ("rej", verdict)

    def judge_row(self, row, number):
        if len(row) != len(self.decls):
            return {"row": number, "column": None, "field": None, "class": "DataError", "reason": "item-count"}
        for column, (cell, decl) in enumerate(zip(row, self.decls)):
            verdict, detail = fieldmodel.validate(decl, cell)
            if verdict is None:
                return {"row": number, "grey": True}
            if verdict == "reject":
                return {"row": number, "column": column, "field": decl["name"], "class": "FieldValueError", "reason": detail}
        values = dict(zip(self.names, row))
        # IsUnique speaks of earlier *accepted* rows: keys are registered only once every check has passed the row.
        # DistinctCount speaks of the rows that reached the check: a value counts as soon as the check has seen the row.
        pending = []
        for check in self.checks:
            if check[0] == "IsUnique":
                key = tuple(values[name] for name in check[2])
                if key in check[3]:
                    if pending:
                        self.keys_not_registered += 1  # an earlier-declared IsUnique check has passed this rejected row
                    return {"row": number, "column": 0, "field": None, "class": "CheckError", "reason": "duplicate", "see_row": check[3][key], "check": check[1]}
                pending.append((check[3], key))
            else:
                check[3].add(values[check[2][0]])
        for seen, key in pending:
            seen[key] = number
        return None

    def close(self):
        """-> description of the first end-of-data check that fails, or None."""
        for check in self.checks:
            if check[0] == "DistinctCount":
                _, op, number = check[2]
                if not OPERATORS[op](len(check[3]), number):
                    return check[1]
        return None

    def check_state(self):
        state = []
        for check in self.checks:
            if check[0] == "IsUnique":
                state.append(tuple(sorted(check[3].items())))
            else:
                state.append(tuple(sorted(check[3])))
        return tuple(state)


def predict(decls, checks, header, limit, raw_rows):
    run = Run(decls, checks, header, limit)
    events = []
    for row in raw_rows:
        event = run.feed(row)
        if event is not None:
            events.append(event)
    return {"events": events, "accepted": run.accepted, "rejected": run.rejected, "close": run.close(), "run": run}
