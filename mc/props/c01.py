"""C01 — range descriptions accept exactly the values they describe.

LTS: init --declare(text)--> R(items, lower, upper) --validate(v)--> R.
Explorer (P): structures (lists of items) are rendered in every documented spelling,
bounded by the number of non-default spelling choices; every structure is probed at every
item boundary, its neighbours and far outside.  Oracle: mc/models/intervals.py.
"""
import decimal
import itertools

from mc import engine
from mc.core import Part
from mc.models import intervals

MOD = "mc.props.c01"
POOL = [-(2**31), -300, -16, -1, 0, 1, 9, 10, 13, 65, 97, 255, 256, 2**31 - 1, 2**63]
SMALL_POOL = [-300, -1, 0, 9, 10, 13, 65, 255, 2**31 - 1]
CHAR_POOL = [9, 32, 34, 39, 44, 46, 58, 92, 122, 0xA0, 0x2003, 0x2025]  # characters that mean something to the range syntax or to string tokens, as quoted limits
DEC_POOL_LONG = ["-100000000000000000.5", "-12345678901234567", "0.5", "0.125", "12345678901234567", "99999999999999999", "100000000000000000.25", "12345678901234567890123.4"]
DEC_POOL = ["-9999999999999999999.999999999999", "-2.50", "-1", "-0.01", "0", "0.5", "1", "1.50", "99.999", "9999999999999999999.999999999999"]
FAR = 2**70
TINY = decimal.Decimal("1E-30")


def _cutplace():
    from cutplace import errors, ranges

    return ranges, errors


# ---- structure enumeration -------------------------------------------------------------
def structures(pool, count):
    """All non-overlapping lists of `count` items over the sorted pool (ascending order):
    singles, closed intervals, an open-left first item, an open-right last item."""
    size = len(pool)

    def rec(start, k):
        if k == count:
            yield []
            return
        for i in range(start, size):
            # single
            for rest in rec(i + 1, k + 1):
                yield [(pool[i], pool[i], True)] + rest
            # closed interval
            for j in range(i + 1, size):
                for rest in rec(j + 1, k + 1):
                    yield [(pool[i], pool[j], False)] + rest
            if k == 0:
                for rest in rec(i + 1, k + 1):
                    yield [(None, pool[i], False)] + rest
            if k == count - 1:
                yield [(pool[i], None, False)]

    return list(rec(0, 0))


def small_shapes():
    values = [-2, -1, 0, 1, 2]
    shapes = [(v, v, True) for v in values]
    shapes += [(lo, hi, False) for lo in values for hi in values if lo <= hi]
    shapes += [(v, None, False) for v in values] + [(None, v, False) for v in values]
    return shapes


# ---- judge -------------------------------------------------------------------------------
def _snapshot(range_object):
    items = range_object.items
    return (None if items is None else tuple(tuple(i) for i in items), range_object.lower_limit, range_object.upper_limit)


def _to_limit(kind, raw):
    if raw is None:
        return None
    return decimal.Decimal(raw) if kind == "dec" else int(raw)


def render_case(case):
    kind = case["kind"]
    items = [(a, b) for a, b, _ in case["items"]]
    singles = [bool(s) for _, _, s in case["items"]]
    if case.get("sint"):
        singles = [False] * len(singles)
    separator = intervals.SEPARATORS[case.get("sep", 0)]
    if kind == "int":
        int_items = [(_to_limit(kind, a), _to_limit(kind, b)) for a, b in items]
        return intervals.render(int_items, singles, separator, case.get("blanks", 0), case.get("spell"), case.get("order"))
    pad, comma = intervals.BLANKS[case.get("blanks", 0)]
    parts = []
    for (lo, hi), single in zip(items, singles):
        parts.append(intervals.render_item((lo, hi), separator, pad, lo, hi, single))
    if case.get("order"):
        parts = [parts[k] for k in case["order"]]
    return comma.join(parts)


def deviation_names(case):
    names = []
    if case.get("sep"):
        names.append("sep=" + intervals.SEPARATORS[case["sep"]])
    if case.get("blanks"):
        names.append("blanks=%d" % case["blanks"])
    if case.get("sint"):
        names.append("single-as-interval")
    if case.get("order") and list(case["order"]) != sorted(case["order"]):
        names.append("reordered")
    if case.get("spell"):
        for (a, b, _), (sa, sb) in zip(case["items"], case["spell"]):
            for raw, index in ((a, sa), (b, sb)):
                if raw is not None and index:
                    text = intervals.limit_spellings(int(raw))[index]
                    if text[0] in "'\"":
                        names.append("spell=quoted-escape" if "\\" in text else "spell=quoted")
                    elif text.lstrip("-")[:2].lower() == "0x":
                        names.append("spell=hex")
                    else:
                        names.append("spell=symbolic")
    return sorted(set(names))


def probes_for(kind, model_items):
    if kind == "dec":
        step = decimal.Decimal("0.001")
        far = decimal.Decimal(10) ** 30
    else:
        step = 1
        far = FAR
    values = set()
    for lo, hi in model_items:
        for limit in (lo, hi):
            if limit is not None:
                values.update((limit - step, limit, limit + step))
                if kind == "dec":
                    # neighbours closer than the 28 significant digits of the default decimal context (computed exactly)
                    exact = decimal.Context(prec=80)
                    values.update((exact.subtract(limit, TINY), exact.add(limit, TINY)))
    values.update((-far, far))
    if kind == "dec":
        values.update(int(v) for v in list(values) if v == v.to_integral_value() and abs(v) < 10**6)
    result = sorted(values, key=lambda v: (decimal.Decimal(v), isinstance(v, int)))
    if kind == "dec":
        # the limits once more in other spellings of the same number (trailing zeros, no trailing zeros, exponent notation, negative zero)
        exact = decimal.Context(prec=80)
        seen = {str(v) for v in result}
        for lo, hi in model_items:
            for limit in (lo, hi):
                if limit is not None:
                    for other in (exact.multiply(limit, decimal.Decimal("1.00")), limit.normalize(exact), exact.multiply(limit, decimal.Decimal("1E+0")).normalize(exact), decimal.Decimal("-0") if limit == 0 else limit):
                        if str(other) not in seen:
                            seen.add(str(other))
                            result.append(other)
    return result


def judge(case, part):
    ranges, errors = _cutplace()
    kind = case["kind"]
    range_class = ranges.Range if kind == "int" else ranges.DecimalRange
    model_items = [(_to_limit(kind, a), _to_limit(kind, b)) for a, b, _ in case["items"]]
    text = render_case(case)
    overlapping = intervals.any_overlap(model_items)
    devs = deviation_names(case)
    tag = "%s|%%s|%s" % (kind, ",".join(devs))
    part.evaluations += 1
    part.transitions += 1
    shown = dict(case, text=text)
    try:
        range_object = range_class(text)
    except errors.InterfaceError as error:
        part.outcome("declare:InterfaceError")
        if not overlapping:
            part.validated += 1
            part.fail(tag % "well-formed-description-rejected", shown, "accepted", "InterfaceError: %s" % error)
        return
    except Exception as error:  # any other exception type is wrong for every description
        part.outcome("declare:" + type(error).__name__)
        part.fail(tag % ("declare-raised-" + type(error).__name__), shown, "accepted" if not overlapping else "accepted or InterfaceError", repr(error))
        return
    snapshot = _snapshot(range_object)
    part.state((kind,) + snapshot)
    if overlapping:
        part.outcome("declare:overlap-tolerated")
        return
    part.nontrivial += 1
    part.validated += 1
    if not model_items:
        expected_lower = expected_upper = None
    else:
        expected_lower = intervals.lower_limit(model_items)
        expected_upper = intervals.upper_limit(model_items)
    if range_object.lower_limit != expected_lower:
        part.fail(tag % "lower-limit", shown, expected_lower, range_object.lower_limit)
    if range_object.upper_limit != expected_upper:
        part.fail(tag % "upper-limit", shown, expected_upper, range_object.upper_limit)
    if devs:
        # differential: every spelling of one structure reaches the snapshot of the default spelling
        canonical = dict(case)
        for key in ("sep", "blanks", "spell", "order", "sint"):
            canonical.pop(key, None)
        try:
            canonical_snapshot = _snapshot(range_class(render_case(canonical)))
            part.transitions += 1
            if case.get("order"):
                same = sorted(map(repr, canonical_snapshot[0] or ())) == sorted(map(repr, snapshot[0] or ())) and canonical_snapshot[1:] == snapshot[1:]
            else:
                same = canonical_snapshot == snapshot
            if not same:
                part.fail(tag % "snapshot-differs-from-default-spelling", shown, canonical_snapshot, snapshot)
        except errors.InterfaceError:
            pass  # reported by the canonical case itself
    probes = case.get("probes")
    if probes is None:
        probes = probes_for(kind, model_items)
    else:
        probes = [_to_limit(kind, p) if not isinstance(p, int) or kind == "dec" and isinstance(p, str) else p for p in probes]
    for value in probes:
        expected = intervals.accepts(model_items if model_items else None, value)
        part.transitions += 1
        part.validated += 1
        try:
            range_object.validate("x", value)
            observed = True
        except errors.RangeValueError:
            observed = False
        except Exception as error:
            part.fail(tag % ("validate-raised-" + type(error).__name__), dict(shown, probes=[str(value)]), expected, repr(error))
            continue
        part.outcome("validate:%s" % observed)
        if observed != expected:
            narrowed = dict(shown, probes=[value if isinstance(value, int) else str(value)])
            part.fail(tag % ("accepted-outside" if observed else "rejected-inside"), narrowed, expected, observed)


    if kind == "int" and len(model_items) >= 2 and all(limit is None or 1 <= limit <= 0x2100 for item in model_items for limit in item):
        # the same description as the 'Allowed characters' of a data format, judged through a Text field: a value is accepted iff every character is inside
        # an item - also one that sits in a gap between two items while its neighbours are at the outer limits
        from cutplace import interface

        try:
            # declared in a CID, once before and once behind the field it applies to
            fields_of_cids = []
            for cid_rows in ([["D", "Format", "Delimited"], ["D", "Allowed characters", text], ["F", "x"]], [["D", "Format", "Delimited"], ["F", "x"], ["D", "Allowed characters", text]]):
                cid = interface.Cid()
                cid.read("cid", cid_rows)
                fields_of_cids.append(cid.field_formats[0])
            # fixed data: the blanks that pad a cell are characters of the data item like any other
            cid = interface.Cid()
            cid.read("cid", [["D", "Format", "Fixed"], ["D", "Allowed characters", text], ["F", "x", "", "", "3"]])
            fixed_field = cid.field_formats[0]
        except Exception as error:
            part.fail(tag % ("allowed-characters-declare-raised-" + type(error).__name__), shown, "accepted", repr(error))
            return
        inside = [v for v in probes if isinstance(v, int) and 1 <= v <= 0x2100 and intervals.accepts(model_items, v)]
        for value, field in [(v, f) for v in probes for f in fields_of_cids]:
            if not isinstance(value, int) or not 1 <= value <= 0x2100 or chr(value).isspace():
                continue
            texts = [chr(value)] + ([chr(min(inside)) + chr(value) + chr(max(inside))] if inside and not chr(min(inside)).isspace() and not chr(max(inside)).isspace() else [])
            expected = intervals.accepts(model_items, value)
            for cell in texts:
                part.transitions += 1
                part.validated += 1
                try:
                    field.validated(cell)
                    observed = True
                except errors.FieldValueError:
                    observed = False
                except Exception as error:
                    part.fail(tag % ("allowed-characters-raised-" + type(error).__name__), dict(shown, probes=[value]), expected, repr(error))
                    continue
                if observed != expected:
                    part.fail(tag % ("allowed-characters:" + ("accepted-outside" if observed else "rejected-inside")), dict(shown, probes=[value]), expected, [cell, observed])
        for value in probes:
            if not isinstance(value, int) or not 1 <= value <= 0x2100 or chr(value).isspace():
                continue
            for cell in (chr(value) + "  ", " " + chr(value) + " ", chr(value) * 3):
                expected = intervals.accepts(model_items, value) and (" " not in cell or intervals.accepts(model_items, 32))
                part.transitions += 1
                part.validated += 1
                try:
                    fixed_field.validated(cell)
                    observed = True
                except errors.FieldValueError:
                    observed = False
                except Exception as error:
                    part.fail(tag % ("allowed-characters-fixed-raised-" + type(error).__name__), dict(shown, probes=[value]), expected, repr(error))
                    continue
                if observed != expected:
                    part.fail(tag % ("allowed-characters-fixed:" + ("accepted-outside" if observed else "rejected-inside")), dict(shown, probes=[value]), expected, [cell, observed])


# ---- enumeration ---------------------------------------------------------------------------
def spelling_cases(structure, bound, with_order=True):
    """All spellings of one int structure with at most `bound` non-default choices."""
    count = len(structure)
    limits = []
    for a, b, _ in structure:
        limits.append(len(intervals.limit_spellings(a)) if a is not None else 1)
        limits.append(len(intervals.limit_spellings(b)) if b is not None else 1)
    orders = list(itertools.permutations(range(count))) if with_order else [tuple(range(count))]
    has_single = any(s for _, _, s in structure)
    sizes = [len(intervals.SEPARATORS), len(intervals.BLANKS), 2 if has_single else 1, len(orders)] + limits
    for choice in engine.deviations(sizes, bound):
        case = {"kind": "int", "items": structure}
        if choice[0]:
            case["sep"] = choice[0]
        if choice[1]:
            case["blanks"] = choice[1]
        if choice[2]:
            case["sint"] = 1
        if choice[3]:
            case["order"] = list(orders[choice[3]])
        spell = choice[4:]
        if any(spell):
            case["spell"] = [[spell[2 * i], spell[2 * i + 1]] for i in range(count)]
        yield case


def work(item):
    part = Part()
    mode = item[0]
    if mode == "small":
        _, separator, first = item
        shapes = small_shapes()
        first_shape = shapes[first]
        lists = [[first_shape]] + [[first_shape, second] for second in shapes]
        for structure in lists:
            case = {"kind": "int", "items": structure, "probes": list(range(-4, 5))}
            if separator:
                case["sep"] = separator
            judge(case, part)
            if first == 7 and len(structure) == 2 and structure[1] == shapes[20]:
                part.sample(dict(case, text=render_case(case)))
    elif mode == "spell":
        _, bound, group = item
        for structure in group:
            for case in spelling_cases(structure, bound):
                judge(case, part)
        part.sample(dict(case, text=render_case(case)))
    elif mode == "dec":
        _, bound, group = item
        for structure in group:
            count = len(structure)
            orders = list(itertools.permutations(range(count)))
            has_single = any(s for _, _, s in structure)
            sizes = [len(intervals.SEPARATORS), len(intervals.BLANKS), 2 if has_single else 1, len(orders)]
            for choice in engine.deviations(sizes, bound):
                case = {"kind": "dec", "items": structure}
                if choice[0]:
                    case["sep"] = choice[0]
                if choice[1]:
                    case["blanks"] = choice[1]
                if choice[2]:
                    case["sint"] = 1
                if choice[3]:
                    case["order"] = list(orders[choice[3]])
                judge(case, part)
        part.sample(dict(case, text=render_case(case)))
    elif mode == "empty":
        for kind in ("int", "dec"):
            judge({"kind": kind, "items": []}, part)
    return part


def run(ctx):
    quick = ctx.tier == "quick"
    shapes = small_shapes()
    items = [("empty",)]
    items += [("small", separator, first) for separator in range(3) for first in range(len(shapes))]
    plan = [(1, POOL, None if not quick else 3), (2, POOL, 3 if not quick else 2), (3, SMALL_POOL, 2 if not quick else 1), (4, SMALL_POOL, 2 if not quick else 1),
            (1, CHAR_POOL, None), (2, CHAR_POOL, 3 if not quick else 2)] + ([(3, CHAR_POOL, 2)] if not quick else [])
    bound_text = {}
    for count, pool, bound in plan:
        all_structures = structures(pool, count)
        bound_text["items=%d%s" % (count, " (syntax characters)" if pool is CHAR_POOL else "")] = "%d structures over a pool of %d limits, %s" % (
            len(all_structures), len(pool), "full spelling product" if bound is None else "<= %d non-default spelling choices" % bound)
        for group in engine.chunks(all_structures, 40 if count < 3 else 25):
            items.append(("spell", bound, group))
    decimal_pool = sorted(DEC_POOL, key=decimal.Decimal)
    for count in (1, 2, 3):
        all_structures = structures(decimal_pool, count)
        bound_text["decimal items=%d" % count] = "%d structures, full product of separator x blanks x order x single-as-interval" % len(all_structures)
        for group in engine.chunks(all_structures, 30):
            items.append(("dec", None, group))
    # limits of 17 and more digits next to limits with a different number of fractional digits (nothing may go through binary floating point)
    long_pool = sorted(DEC_POOL_LONG, key=decimal.Decimal)
    for count in (1, 2):
        all_structures = structures(long_pool, count)
        bound_text["decimal items=%d (many-digit limits)" % count] = "%d structures, full product of separator x blanks x order x single-as-interval" % len(all_structures)
        for group in engine.chunks(all_structures, 30):
            items.append(("dec", None, group))
    ctx.bound = bound_text
    ctx.bound["small-scope"] = "all 1- and 2-item lists over 30 item shapes with limits in {-2..2, open} x 3 separators x all values -4..4"
    ctx.rule = (
        "descriptions are rendered from item structures (never parsed by the oracle); a case is one (structure, spelling); "
        "non-trivial = non-overlapping structure whose description was declared and probed at every boundary, its neighbours and far outside; "
        "enumeration is duplicate-free by construction; states = distinct (items, lower, upper) snapshots reached"
    )
    ctx.assumptions = [
        "overlapping items are only required not to raise anything but InterfaceError (the statement covers non-overlapping items)",
        "grey zones not enumerated: three or more dots, float limits for integer ranges, multi-character strings, the quoted ellipsis character",
    ]
    ctx.pmap(MOD, "work", items, label="C01")
