"""C02 — each field type accepts exactly the values its rule describes.

LTS: init --declare(type, empty, length, rule, format)--> F --validated(cell)--> F.
Explorer (P): declarations are structures rendered into CID texts; cells are generated from the
rule (must accept) and by single mutations (must reject).  Both the direct constructor path and
the CID-row + cutplace.rows path are driven and must agree.  Oracle: mc/models/fieldmodel.py.
"""
import csv
import decimal
import io
import itertools
import os
import re

from mc import engine, harness, readermachine
from mc.core import Part
from mc.models import fieldmodel
from mc.props import c01

MOD = "mc.props.c02"
INT_POOL = [-(2**31), -300, -16, -1, 0, 1, 9, 10, 255, 256, 2**31 - 1, 2**31, 2**63]
DEC_POOL = ["-2.50", "-1", "-0.01", "0", "0.5", "1", "1.50", "99.999"]
NON_INTEGER_CELLS = ["1.5", "abc", "1e3", "--1", "0x10", "1 2", "-", "1-", "ten"]
CHOICE_POOL = ["red", "Red", "RED", "a b", "x,y", "ä"]
GLOB_TOKENS = ["a", "b", "?", "*", ["set", "ab", False], ["set", "a", True], ["set", "a-c", False]]
RX_TOKENS = [
    ["lit", "a"], ["lit", "b"], ["any"], ["set", False, "ab"], ["set", True, "a"], ["*", ["lit", "a"]], ["+", ["lit", "b"]],
    ["?", ["lit", "c"]], ["alt", [["lit", "a"], ["lit", "b"]]], ["*", ["group", ["seq", [["lit", "a"], ["lit", "b"]]]]], ["*", ["any"]],
]
ABC_CELLS = ["".join(t) for n in range(1, 5) for t in itertools.product("aBc", repeat=n)]
DATE_GRID = {"DD": [0, 1, 9, 28, 29, 30, 31, 32], "MM": [0, 1, 2, 4, 12, 13], "YYYY": [1, 999, 1900, 1999, 2000, 2023, 2024, 9999],
             "YY": [0, 68, 69, 99], "hh": [0, 9, 23, 24], "mm": [0, 59, 60], "ss": [0, 59, 62]}


# ---- observation of the real code ---------------------------------------------------------------
def observe_direct(field, cell, errors):
    try:
        return "accept", field.validated(cell)
    except errors.FieldValueError as error:
        return "reject", str(error)
    except Exception as error:
        return "raised-" + type(error).__name__, repr(error)


def data_text(decl, cells):
    """The cells as a one-column data set for the declaration's format, plus the cells that could be stored."""
    if decl["fmt"] == "fixed":
        usable = [c for c in cells if len(c) <= decl["width"] and "\n" not in c and "\r" not in c]
        return "".join(c.ljust(decl["width"]) + "\n" for c in usable), usable
    delimiter = ";" if decl["preset"] in ("delimited_de", "delimited_comma") else ","
    stream = io.StringIO()
    writer = csv.writer(stream, delimiter=delimiter, quotechar='"', doublequote=True, lineterminator="\n", quoting=csv.QUOTE_ALL)
    for cell in cells:
        writer.writerow([cell])
    return stream.getvalue(), list(cells)


_NUMBER_CELL = re.compile(r"-?(0|[1-9][0-9]*)(\.[0-9]*[1-9])?")


def observe_via_cid(decl, cells, props_after_fields=False, numeric_cells=False):
    import cutplace

    m = harness.modules()
    if decl["fmt"] == "excel" and numeric_cells:
        # number cells: every cell whose text is the shortest spelling of an exactly representable number below 2^53 is stored as a number;
        # the reader delivers that spelling (C16), so the verdict must be the one of the text
        cid = harness.make_cid(harness.cid_rows(decl["preset"], [decl], allowed=decl.get("allowed")))
        usable = [c for c in cells if _NUMBER_CELL.fullmatch(c) and abs(float(c)) < 2**53 and repr(float(c)) in (c, c + ".0")]
        source = os.path.join(readermachine.tmpdir(), "c02numbers_%d.xlsx" % os.getpid())
        workbook = harness.new_workbook(source)
        worksheet = workbook.add_worksheet()
        for index, cell in enumerate(usable):
            worksheet.write_number(index, 0, float(cell))
        workbook.close()
    elif decl["fmt"] in ("excel", "ods"):
        # the cells as text cells of a one-column sheet, read through the container reader
        cid = harness.make_cid(harness.cid_rows(decl["preset"], [decl], allowed=decl.get("allowed")))
        usable = [c for c in cells if c != "" and all(ch in "\t\n" or (ch >= " " and not 0xD800 <= ord(ch) <= 0xDFFF and ch not in "\ufffe\uffff") for ch in c) and "\r" not in c]
        source, _ = readermachine.store({"preset": decl["preset"], "odf": {"span_range": [1, 4]}}, [decl], [[c] for c in usable], name="c02cells")
    else:
        rows = harness.cid_rows(decl["preset"], [decl], allowed=decl.get("allowed"), line_delimiter="lf", props_after_fields=props_after_fields)
        cid = harness.make_cid(rows)
        text, usable = data_text(decl, cells)
        source = harness.NamedStringIO(text)
    verdicts = []
    for item in cutplace.rows(cid, source, on_error="yield"):
        verdicts.append("reject" if isinstance(item, m["errors"].DataError) else "accept")
    return usable, verdicts


def judge(case, part):
    """case: {"decl": declaration structure, "cells": [...]} or {"decl":..., "int_sweep": digits}"""
    m = harness.modules()
    errors = m["errors"]
    decl = harness.complete(case["decl"])
    field_type = decl["type"]
    tag = "%s|%s|%%s" % (field_type, decl["preset"])
    part.evaluations += 1
    part.transitions += 1
    try:
        field = harness.declare(decl)
    except Exception as error:
        kind = "declare-rejected-InterfaceError" if isinstance(error, errors.InterfaceError) else "declare-raised-" + type(error).__name__
        part.outcome("declare:" + type(error).__name__)
        part.fail(tag % kind, case, "declaration accepted", repr(error))
        return
    part.state((field_type, decl["preset"], fieldmodel.render_rule(field_type, decl.get("rule")), harness.length_text(decl), decl["empty"]))
    if "int_sweep" in case:
        digits = case["int_sweep"]
        low, high = -(10 ** (digits - 1)) + 1, 10**digits - 1
        only = case.get("only")
        # beyond the sweep: numbers around the 32 bit limits and far outside them, which an open ended length admits
        numbers = only if only is not None else list(range(low, high + 1)) + [2**31 - 1, 2**31, -(2**31), -(2**31) - 1, 40012345678, -40012345678, 10**18, -(10**18)]
        validated = field.validated
        width = decl.get("width")
        mismatches = 0
        for number in numbers:
            cell = str(number)
            expected = fieldmodel.validate(decl, cell)
            try:
                value = validated(cell)
                observed = ("accept", value)
            except errors.FieldValueError:
                observed = ("reject", None)
            except Exception as error:
                observed = ("raised-" + type(error).__name__, None)
            if observed[0] != expected[0] or (expected[0] == "accept" and observed[1] != expected[1]):
                mismatches += 1
                if mismatches <= 3:
                    kind = "accepted-but-rule-excludes" if observed[0] == "accept" else ("rejected-but-rule-includes" if observed[0] == "reject" else observed[0])
                    if observed[0] == expected[0]:
                        kind = "wrong-value"
                    part.fail(tag % ("length-derived:" + kind), dict(case, only=[number]), expected, [observed[0], harness.native(observed[1])])
        count = len(numbers)
        part.transitions += count
        part.validated += count
        part.nontrivial += 1
        part.outcome("int-sweep")
        return
    cells = case["cells"]
    direct = {}
    interesting = False
    for cell in cells:
        expected, expected_value = fieldmodel.validate(decl, cell)
        observed, observed_value = observe_direct(field, cell, errors)
        part.transitions += 1
        direct[cell] = observed
        if expected is None:
            part.note("grey-zone cells not judged")
            continue
        part.validated += 1
        part.outcome("%s:%s" % (field_type, observed))
        narrowed = {"decl": case["decl"], "cells": [cell]}
        if observed != expected:
            interesting = True
            if observed == "accept":
                kind = "accepted-but-rule-excludes"
            elif observed == "reject":
                kind = "rejected-but-rule-includes"
            else:
                kind = "validate-" + observed
            part.fail(tag % kind, narrowed, [expected, harness.native(expected_value)], [observed, harness.native(observed_value)])
        elif expected == "accept" and not fieldmodel.same_value(field_type, expected_value, observed_value):
            part.fail(tag % "wrong-native-value", narrowed, harness.native(expected_value), harness.native(observed_value))
        if expected == "reject":
            interesting = True
    if interesting:
        part.nontrivial += 1
    # the same field object sees every cell again (reverse order): verdicts must not depend on what it validated before
    for cell in reversed(cells):
        again, _ = observe_direct(field, cell, errors)
        part.transitions += 1
        part.validated += 1
        if again != direct[cell]:
            part.fail(tag % "verdict-changes-when-the-cell-is-validated-again", {"decl": case["decl"], "cells": [cell, cell]}, direct[cell], again)
    if not case.get("no_cid"):
        try:
            usable, verdicts = observe_via_cid(decl, cells)
        except Exception as error:
            part.fail(tag % ("cid-path-raised-" + type(error).__name__), case, "rows readable under a CID declaring the field", repr(error))
            return
        part.transitions += 1 + len(usable)
        if len(verdicts) != len(usable):
            part.fail(tag % "cid-path-row-count", case, len(usable), len(verdicts))
            return
        for cell, verdict in zip(usable, verdicts):
            part.validated += 1
            if direct[cell] in ("accept", "reject") and verdict != direct[cell]:
                part.fail(tag % "cid-path-disagrees-with-direct-path", {"decl": case["decl"], "cells": [cell]}, direct[cell], verdict)
        if decl["fmt"] == "excel" and field_type in ("Integer", "Decimal"):
            try:
                usable, verdicts = observe_via_cid(decl, cells, numeric_cells=True)
            except Exception as error:
                part.fail(tag % ("number-cells-raised-" + type(error).__name__), case, "rows readable under a CID declaring the field", repr(error))
                return
            part.transitions += 1 + len(usable)
            if len(verdicts) != len(usable):
                part.fail(tag % "number-cells-row-count", case, len(usable), len(verdicts))
                return
            for cell, verdict in zip(usable, verdicts):
                part.validated += 1
                if direct[cell] in ("accept", "reject") and verdict != direct[cell]:
                    part.fail(tag % "number-cell-disagrees-with-its-text", {"decl": case["decl"], "cells": [cell]}, direct[cell], verdict)
        if decl["fmt"] in ("delimited", "fixed") and harness.PRESETS[decl["preset"]][1] and field_type == "Decimal":
            # the separator rows declared behind the field row: they are data format properties all the same
            try:
                # with an example that is written without any separator (it is validated when the field row is read, before the separator rows)
                plain = next((c for c in cells if c.isdigit() and c.isascii() and direct.get(c) == "accept"), None)
                usable, verdicts = observe_via_cid(dict(decl, example=plain) if plain else decl, cells, props_after_fields=True)
            except Exception as error:
                part.fail(tag % ("cid-path:properties-after-fields-raised-" + type(error).__name__), case, "rows readable under a CID declaring the field", repr(error))
                return
            part.transitions += 1 + len(usable)
            for cell, verdict in zip(usable, verdicts):
                part.validated += 1
                if direct[cell] in ("accept", "reject") and verdict != direct[cell]:
                    part.fail(tag % "cid-path:properties-after-fields-disagrees-with-direct-path", {"decl": case["decl"], "cells": [cell]}, direct[cell], verdict)


# ---- enumeration ------------------------------------------------------------------------------
def integer_rule_cases(tier):
    cases = []
    structures = c01.structures(INT_POOL, 1) + (c01.structures(INT_POOL, 2) if tier == "thorough" else c01.structures(INT_POOL[2:10], 2))
    for structure in structures:
        items = [(a, b) for a, b, _ in structure]
        cells = [str(v) for v in c01.probes_for("int", items)] + NON_INTEGER_CELLS[:4]
        for preset in ("delimited", "fixed", "excel", "ods"):
            decl = {"type": "Integer", "preset": preset, "rule": {"items": [list(i) for i in structure]}}
            if preset == "fixed":
                decl["width"] = 24
            cases.append({"decl": decl, "cells": cells})
    boundary = [str(v) for v in (-(2**31) - 1, -(2**31), -(2**31) + 1, -1, 0, 1, 2**31 - 2, 2**31 - 1, 2**31, 2**63)] + NON_INTEGER_CELLS
    for preset in ("delimited", "excel", "ods"):
        cases.append({"decl": {"type": "Integer", "preset": preset}, "cells": boundary})
        # 16-digit numbers (below 2^53: exact as number cells)
        wide = [str(v) for v in (999999999999999, 10**15 - 1, 10**15, 1234567890123450, 4000000000000001, 8999999999999999, 9 * 10**15, 2**53 - 1, 9007199254740993)]
        cases.append({"decl": {"type": "Integer", "preset": preset, "rule": {"items": [[10**15, 8999999999999999, False]]}}, "cells": wide})
    return cases


def length_declarations():
    lengths = []
    for a in range(0, 6):
        for b in range(max(a, 1), 6):
            lengths.append([[a, b, a == b]])
    for b in range(1, 6):
        lengths.append([[None, b, False]])
    for a in range(0, 6):
        lengths.append([[a, None, False]])
    lengths.append([[1, 1, True], [3, 4, False]])
    lengths.append([[None, 2, False], [5, None, False]])
    return lengths


def integer_sweep_cases(tier):
    digits = 6 if tier == "thorough" else 5
    cases = []
    for length in length_declarations():
        cases.append({"decl": {"type": "Integer", "preset": "delimited", "length": length}, "int_sweep": digits})
    for width in range(1, 6):
        cases.append({"decl": {"type": "Integer", "preset": "fixed", "width": width}, "int_sweep": digits})
    return cases


def render_decimal(sign, integer_digits, fraction, grouped, dec_sep, thou_sep):
    if grouped and thou_sep and len(integer_digits) > 3:
        head = len(integer_digits) % 3 or 3
        groups = [integer_digits[:head]] + [integer_digits[i:i + 3] for i in range(head, len(integer_digits), 3)]
        integer_digits = thou_sep.join(groups)
    return sign + integer_digits + (dec_sep + fraction if fraction else "")


def decimal_cases(tier):
    cases = []
    structures = [None] + c01.structures(sorted(DEC_POOL, key=decimal.Decimal), 1)
    if tier == "thorough":
        structures += c01.structures(sorted(DEC_POOL, key=decimal.Decimal), 2)
    for preset in ("delimited", "delimited_us", "delimited_de", "delimited_comma", "fixed", "fixed_de", "excel", "ods"):
        _, _, dec_sep, thou_sep = harness.PRESETS[preset]
        other_sep = "," if dec_sep == "." else "."
        for structure in structures:
            cells = []
            for sign in ("", "-"):
                for integer_digits in ("0", "1", "12", "999", "1234", "1234567"):
                    for fraction in ("", "0", "5", "50", "999", "001"):
                        for grouped in (False, True):
                            if grouped and not (thou_sep and len(integer_digits) > 3):
                                continue
                            cells.append(render_decimal(sign, integer_digits, fraction, grouped, dec_sep, thou_sep))
            if structure:
                step = decimal.Decimal("0.001")
                for lo, hi, _ in structure:
                    for limit in (lo, hi):
                        if limit is not None:
                            for value in (decimal.Decimal(limit) - step, decimal.Decimal(limit), decimal.Decimal(limit) + step):
                                text = "%.3f" % value
                                sign = "-" if text.startswith("-") else ""
                                integer_digits, _, fraction = text.lstrip("-").partition(".")
                                cells.append(render_decimal(sign, integer_digits, fraction, False, dec_sep, thou_sep))
            # numbers of more than 28 significant digits (the default range has limits of 31 digits) and values a hair beside a limit
            for integer_digits, fraction in (("9999999999999999999", "999999999999"), ("1234567890123456789", "123456789012"), ("1", "00000000000000000000000000001"), ("0", "99999999999999999999999999999"),
                                             ("0", "00000000012345678901234567890123456789"), ("10000000000000000000", "")):
                for sign in ("", "-"):
                    cells.append(render_decimal(sign, integer_digits, fraction, False, dec_sep, thou_sep))
            if preset == "excel":
                cells += ["1.000000000000001", "0.1234567890123456", "0.9999999999999999", "1234567890123.25"]  # 16 significant digits: still exact as a number cell
            # single mutations that must be rejected
            cells += ["1" + dec_sep + "5" + dec_sep + "0", "1a", "a", "-", "1" + dec_sep + "5x"]
            # scientific notation is a way to write a number, too; a torn exponent is none
            cells += ["1e2", "2" + dec_sep + "5E+3", "5e-05", "-1" + dec_sep + "5e1", "12E0", "1e", "e5", "1e+", "1e2e3", "1e2" + dec_sep + "5"]
            if thou_sep:
                cells.append("1" + dec_sep + "5" + thou_sep + "000")
            if other_sep != thou_sep:
                cells.append("1" + other_sep + "5")
            cells = list(dict.fromkeys(cells))
            decl = {"type": "Decimal", "preset": preset}
            if structure:
                decl["rule"] = {"items": [list(i) for i in structure]}
            if preset.startswith("fixed"):
                decl["width"] = 24
            cases.append({"decl": decl, "cells": cells})
    return cases


def choice_cases(tier):
    cases = []
    lists = [list(p) for n in (1, 2, 3) for p in itertools.permutations(CHOICE_POOL, n)]
    cells = CHOICE_POOL + ["re", "redx", "a", "b", "x", "A B"]
    # values that begin or end with a quote character of the other kind than the one the token is written in
    quote_cells = ['19"', "19", '24"', "Jones'", "Jones", "'t Hooft", "t Hooft", '"q"', "q", "''", "'", "...", "\u2026", "a...b", "a\u2026b", "n/a"]
    for choices in (['19"', '24"'], ["Jones'", "'t Hooft", "red"], ['"q"', "red"], ["''", "q"], ["...", "n/a"], ["\u2026", "a...b"]):
        for preset in ("delimited", "fixed", "excel", "ods"):
            decl = {"type": "Choice", "preset": preset, "rule": {"choices": choices, "quoted": True}}
            if preset == "fixed":
                decl["width"] = 8
            cases.append({"decl": decl, "cells": quote_cells + ["red"]})
    for choices in lists:
        styles = [True]
        if all(c.isascii() and c.isidentifier() for c in choices):
            styles.append(False)
        for quoted in styles:
            for preset in ("delimited", "fixed"):
                decl = {"type": "Choice", "preset": preset, "rule": {"choices": choices, "quoted": quoted}}
                if preset == "fixed":
                    decl["width"] = 6
                cases.append({"decl": decl, "cells": cells})
    return cases


def constant_cases(tier):
    cases = []
    for token, style in (("abc", "str"), ("a b", "str"), ("42", "int"), ("3.14", "float"), ("abc", "name"), ("ä", "str"), ("Abc", "str"), ('5"', "str"), ("'s", "str"), ('"q"', "str"), ("...", "str"), ("a...b", "str")):
        cells = [token, token.upper(), token.lower(), token[:-1] or "z", token + "x", "z" + token, token + ".0", " " + token, token.strip("\"'"), token[1:]]
        cells = [c for c in dict.fromkeys(cells) if c]
        for preset in ("delimited", "fixed", "excel", "ods"):
            decl = {"type": "Constant", "preset": preset, "rule": {"token": token, "style": style}}
            if preset == "fixed":
                decl["width"] = len(token)  # a fixed Constant must be as wide as its value
                cells = [c for c in cells if not c.startswith(" ")]
            cases.append({"decl": decl, "cells": cells})
    return cases


def date_layouts():
    layouts = []
    date_parts = ["DD", "MM", "YYYY", "YY"]
    time_parts = ["hh", "mm", "ss"]
    for n in (1, 2, 3):
        for parts in itertools.permutations(date_parts, n):
            if "YYYY" in parts and "YY" in parts:
                continue
            for separator in (".", "-", "/"):
                layouts.append((list(parts), [separator] * (n - 1)))
                if n == 1:
                    break
    for n in (1, 2, 3):
        for parts in itertools.permutations(time_parts, n):
            layouts.append((list(parts), [":"] * (n - 1)))
    layouts.append((["YYYY", "MM", "DD", "hh", "mm", "ss"], ["-", "-", " ", ":", ":"]))
    layouts.append((["DD", "MM", "YYYY", "hh", "mm"], [".", ".", " ", ":"]))
    layouts.append((["YYYY", "MM", "DD"], ["", ""]))
    layouts.append((["DD", "MM", "YY"], ["", ""]))
    layouts.append((["hh", "mm", "ss"], ["", ""]))
    return layouts


def datetime_cases(tier):
    cases = []
    for parts, seps in date_layouts():
        grids = [DATE_GRID[p] for p in parts]
        if len(parts) > 3:
            grids = [g[1:6:2] if len(g) > 4 else g for g in grids]
        unseparated = any(s == "" for s in seps)
        cells = []
        for combo in itertools.product(*grids):
            values = dict(zip(parts, combo))
            cells.append(fieldmodel.render_date_cell(parts, seps, values, True))
            if not unseparated:
                cells.append(fieldmodel.render_date_cell(parts, seps, values, False))
        cells += ["x", cells[0] + "x", "x" + cells[0]]
        cells = list(dict.fromkeys(cells))
        for preset in ("delimited", "fixed", "excel", "ods"):
            decl = {"type": "DateTime", "preset": preset, "rule": {"parts": parts, "seps": seps}}
            use = cells
            if preset == "fixed":
                decl["width"] = 20
            if preset == "excel":
                use = cells + [c + " 00:00:00" for c in cells[:40]]
            cases.append({"decl": decl, "cells": use})
    return cases


def pattern_cases(tier):
    depth = 5 if tier == "thorough" else 4
    cases = []
    for n in range(1, depth + 1):
        for tokens in itertools.product(GLOB_TOKENS, repeat=n):
            for preset in (("delimited", "fixed") if n <= 2 else ("delimited",)):
                decl = {"type": "Pattern", "preset": preset, "rule": {"tokens": list(tokens)}}
                if preset == "fixed":
                    decl["width"] = 4
                cases.append({"decl": decl, "cells": ABC_CELLS, "no_cid": n > 2})
    # rules that contain three dots (the ellipsis of ranges means nothing in a glob): also through the CID path
    for tokens in (["v", ".", ".", ".", "*"], [".", ".", "."], ["a", ".", ".", ".", "b"]):
        for preset in ("delimited", "fixed"):
            decl = {"type": "Pattern", "preset": preset, "rule": {"tokens": tokens}}
            if preset == "fixed":
                decl["width"] = 8
            cases.append({"decl": decl, "cells": ["v...", "v\u2026", "v...beta", "V...x", "...", "\u2026", "a...b", "a\u2026b", "vabc", "v..", "axyzb"]})
    return cases


def regex_cases(tier):
    depth = 4
    cases = []
    for n in range(1, depth + 1):
        for tokens in itertools.product(RX_TOKENS, repeat=n):
            ast = ["seq", list(tokens)]
            for preset in (("delimited", "fixed") if n <= 2 else ("delimited",)):
                decl = {"type": "RegEx", "preset": preset, "rule": {"ast": ast}}
                if preset == "fixed":
                    decl["width"] = 4
                # rules rendered with three consecutive dots also go through the CID path (there '...' is the ellipsis of ranges only)
                cases.append({"decl": decl, "cells": ABC_CELLS + ["a\u2026", "\u2026"], "no_cid": n > 2 and "..." not in fieldmodel.render_rule("RegEx", decl["rule"])})
    # letters outside ASCII: case is ignored for them as well
    other_cells = ["\xf6", "\xd6", "\u03a9", "\u03c9", "\xe4", "\xc4", "a\xd6", "\xf6a", "\xc4b", "\xe4B", "\u0141\xd3d\u0179", "\u0142\xf3d\u017a", "o", "a"]
    for tokens in ([["lit", "\xf6"]], [["lit", "a"], ["lit", "\xd6"]], [["set", False, "\xe4\xf6"], ["lit", "b"]], [["lit", "\u03a9"]], [["lit", "\u03c9"]],
                   [["lit", "\u0142"], ["lit", "\xf3"], ["lit", "d"], ["lit", "\u017a"]], [["+", ["set", False, "\u03b1\u03c9"]]]):
        for preset in ("delimited", "ods", "excel"):
            cases.append({"decl": {"type": "RegEx", "preset": preset, "rule": {"ast": ["seq", tokens]}}, "cells": other_cells})
    return cases


def text_cases(tier):
    cells = ["a", "A b", "ä€", "12", "-", '"', "x,y", "a\tb", " lead", "trail "]
    cases = []
    for preset in ("delimited", "fixed", "excel", "ods"):
        decl = {"type": "Text", "preset": preset}
        if preset == "fixed":
            decl["width"] = 8
        cases.append({"decl": decl, "cells": cells})
    return cases


def work(group):
    part = Part()
    for case in group:
        judge(case, part)
    if group:
        sample = dict(group[0])
        if "cells" in sample:
            sample["cells"] = sample["cells"][:5]
        sample["rendered_rule"] = fieldmodel.render_rule(sample["decl"]["type"], sample["decl"].get("rule"))
        part.sample(sample, limit=1)
    return part


def run(ctx):
    tier = ctx.tier
    groups = []
    counts = {}
    for name, maker, size in (("Integer rule", integer_rule_cases, 60), ("Integer length sweep", integer_sweep_cases, 1), ("Decimal", decimal_cases, 8),
                              ("Choice", choice_cases, 40), ("Constant", constant_cases, 8), ("DateTime", datetime_cases, 4),
                              ("Pattern", pattern_cases, 60), ("RegEx", regex_cases, 60), ("Text", text_cases, 4)):
        cases = maker(tier)
        counts[name] = len(cases)
        groups += engine.chunks(cases, size)
    # heavy items first so that the pool stays busy
    groups.sort(key=lambda g: -sum(10**6 if "int_sweep" in c else len(c.get("cells", ())) for c in g))
    ctx.bound = {
        "declarations per type": counts,
        "integer length sweep": "every length declaration over {k, a...b, ...b, a...} with 0<=a<=b<=5 plus two 2-item lengths, and fixed widths 1..5, against every integer whose text has <= %d characters" % (6 if tier == "thorough" else 5),
        "glob / regex depth": "glob up to %d tokens, regex up to 4 tokens" % (5 if tier == "thorough" else 4),
        "cells": "generated from the rule (boundaries, grids) plus single mutations; Pattern/RegEx: all strings over {a,B,c} up to length 4",
    }
    ctx.rule = ("a case is one declaration (type, format preset, rule structure, length) with its cell list; every cell is validated on the directly "
                "constructed field format and, for delimited and fixed presets, again through Cid rows + cutplace.rows; non-trivial = declaration with at "
                "least one cell the model rejects (or an integer sweep); declarations are distinct by construction; states = distinct declared field configurations")
    ctx.assumptions = [
        "grey zones not judged: malformed thousands grouping, seconds 60-61, integer cells with blanks/underscore/plus/non-ASCII digits",
        "year-less date layouts are judged against a leap year (29.02 accepted), as time.strptime does",
    ]
    ctx.pmap(MOD, "work", groups, label="C02")
