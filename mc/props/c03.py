"""C03 — empty, length and allowed-character guards hold for every field type.

Explorer (P), full product: 8 types x empty flag x length declaration x allowed characters x
format x guard-oriented cells.  Oracle: guards() of mc/models/fieldmodel.py, then the C02 models.
"""
import io
import itertools

from mc import engine, harness
from mc.core import Part
from mc.models import fieldmodel
from mc.props import c02

MOD = "mc.props.c03"

# type -> (rule structure accepting the payload, payload, [lo, hi] code range of the payload alphabet)
TYPES = {
    "Text": (None, "abcd", [97, 122]),
    "Pattern": ({"tokens": ["*"]}, "abcd", [97, 122]),
    "RegEx": ({"ast": ["seq", [["*", ["any"]]]]}, "abcd", [97, 122]),
    "Choice": ({"choices": ["abc", "abcd", "abcde", "ab", "a"], "quoted": True}, "abcd", [97, 122]),
    "Constant": ({"token": "abcd", "style": "str"}, "abcd", [97, 122]),
    "Integer": (None, "1234", [48, 57]),
    "Decimal": (None, "12.5", [46, 57]),
    "DateTime": ({"parts": ["hh", "mm"], "seps": [":"]}, "12:30", [48, 58]),
}
OUTSIDE = {"ascii": "é", "alphabet": "~"}


def length_options(size, tier="quick"):
    options = {
        "none": None,
        "exact": [[size, size, True]],
        "lower-only": [[size - 1, None, False]],
        "upper-only": [[None, size + 1, False]],
        "two-items": [[1, 2, False], [size, size + 1, False]],
        "exact-shorter": [[size - 1, size - 1, True]],
        # an upper limit of 0 is a limit like any other (only the empty cell has that length)
        "zero-or-size": [[0, 0, True], [size, size, True]],
        "up-to-zero": [[None, 0, False]],
    }
    if tier == "thorough":
        options.update({
            "three-items": [[1, 1, True], [size, size, True], [size + 2, size + 3, False]],
            "two-items-descending": [[size, size + 1, False], [1, 2, False]],
            "exact-longer": [[size + 1, size + 1, True]],
            "open-pieces": [[None, 1, False], [size, None, False]],
            "gap-around-size": [[1, size - 1, False], [size + 1, size + 2, False]],
        })
    return options


# every character str.strip() removes (apart from the blank): fixed-width cells are stripped, so these are the ones a guard may lose
STRIPPABLE = [chr(code) for code in range(0x3001) if chr(code).isspace() and chr(code) not in " \r\n"]


def allowed_options(code_range, fixed):
    lo, hi = code_range
    options = {"alphabet-without-blank": [[lo, hi, False]]} if fixed else {}
    options.update({
        "none": None,
        "alphabet": [[32, 32, True], [lo, hi, False]] if fixed else [[lo, hi, False]],
        "blank+alphabet": [[32, 32, True], [lo, hi, False]],
        "ascii": [[None, 127, False]],
    })
    return options


def cells_for(decl, payload, allowed_name, tier="quick"):
    fixed = decl["fmt"] == "fixed"
    cells = ["", " ", "   "]
    variants = [payload, payload[:-1], payload + payload[-1], payload[:1]]
    if decl["type"] in ("Integer", "Decimal"):
        # longer or shorter texts that denote a number the rule accepts: only their number of characters is wrong
        variants += ["0" + payload, "00" + payload, "+" + payload, "-0" + payload[1:], "0" + payload[:-2]]
    if fixed:
        width = decl["width"]
        cells.append(" " * width)
        cells.append(" " * (width + 1))
        for text in variants:
            cells += [text, text.ljust(width), text.rjust(width), text.ljust(width + 1)]
    else:
        cells += variants + [payload[:2], payload + payload]
    if allowed_name != "none":
        # characters outside the allowed range; whitespace-like ones matter because fixed cells are stripped
        bad_characters = [OUTSIDE["ascii"], "\xa0", "\u2003", "\x00"] if allowed_name == "ascii" else [OUTSIDE["alphabet"], "\t", "\xa0", "\x0c", "\n", "\r", "\x00"]
        if allowed_name == "alphabet-without-blank":
            bad_characters.append(" ")
        if tier == "thorough":
            bad_characters = list(dict.fromkeys(bad_characters + STRIPPABLE + ["\x00", "\x7f", "\u00ad", "\ufeff", "\U0001f600"]))
        for bad in bad_characters:
            for position in range(len(payload)):
                cells.append(payload[:position] + bad + payload[position + 1:])
            cells.append(bad)
            if fixed:
                width = decl["width"]
                cells += [bad + payload, payload + bad, (payload + bad).ljust(width), (bad + payload).rjust(width), payload.ljust(width - 1) + bad, bad.ljust(width), bad.rjust(width)]
                cells = [c for c in cells if len(c) <= width + 1]
        if allowed_name == "alphabet" and not fixed:
            cells.append(payload[:1] + " " + payload[2:])
        if tier == "thorough":
            # two disallowed characters, at both ends and adjacent
            first, second = bad_characters[0], bad_characters[1]
            cells += [first + payload[1:-1] + second, first + second + payload[2:], payload[:-2] + second + first]
            if fixed:
                cells = [c for c in cells if len(c) <= decl["width"] + 1]
    return [c for c in dict.fromkeys(cells)]


def judge(case, part):
    m = harness.modules()
    errors = m["errors"]
    decl = harness.complete(case["decl"])
    field_type = decl["type"]
    tag = "%s|%s|empty=%s|%%s" % (field_type, decl["preset"], int(bool(decl["empty"])))
    part.evaluations += 1
    part.transitions += 1
    try:
        field = harness.declare(decl)
    except Exception as error:
        part.fail(tag % ("declare-raised-" + type(error).__name__), case, "declaration accepted", repr(error))
        return
    part.state((field_type, decl["preset"], decl["empty"], harness.length_text(decl), fieldmodel.render_items(decl.get("allowed"))))
    part.nontrivial += 1
    for cell in case["cells"]:
        guard, _ = fieldmodel.guards(decl, cell)
        expected, expected_value = fieldmodel.validate(decl, cell)
        observed, observed_value = c02.observe_direct(field, cell, errors)
        part.transitions += 1
        if expected is None:
            continue
        part.validated += 1
        part.outcome("%s/%s" % (guard, observed))
        narrowed = {"decl": case["decl"], "cells": [cell]}
        if observed != expected:
            part.fail(tag % ("guard=%s expected=%s observed=%s" % (guard, expected, observed)), narrowed,
                      [expected, harness.native(expected_value)], [observed, harness.native(observed_value)])
        elif expected == "accept" and not fieldmodel.same_value(field_type, expected_value, observed_value):
            part.fail(tag % ("guard=%s wrong-value" % guard), narrowed, harness.native(expected_value), harness.native(observed_value))
    for cell in reversed(case["cells"]):
        first, _ = fieldmodel.validate(decl, cell)
        again, _ = c02.observe_direct(field, cell, errors)
        part.transitions += 1
        if first is not None and again != first:
            part.validated += 1
            part.fail(tag % "verdict-changes-when-the-cell-is-validated-again", {"decl": case["decl"], "cells": [cell, cell]}, first, again)
    # the same cells through Cid rows + Reader.rows() in 'yield' mode: same verdicts, and the message names the field;
    # once with the allowed-characters row before the field rows and once behind them (data format rows may come anywhere after Format)
    if decl["fmt"] in ("delimited", "fixed"):
        import cutplace

        for allowed_after_fields in ((False, True) if decl.get("allowed") else (False,)):
            where = "cid-path" + (":property-after-fields" if allowed_after_fields else "")
            try:
                # in the CID the allowed range is written with quoted characters where its limits are letters or digits
                rows = harness.cid_rows(decl["preset"], [decl], allowed=decl.get("allowed"), line_delimiter="lf", allowed_quoted=True, allowed_after_fields=allowed_after_fields)
                cid = harness.make_cid(rows)
                text, usable = c02.data_text(decl, [c for c in case["cells"] if not any(ch in c for ch in "\x0b\x0c\x1c\x1d\x1e\x85\u2028\u2029")])
                events = list(cutplace.rows(cid, harness.NamedStringIO(text, "guards.txt"), on_error="yield"))
            except Exception as error:
                part.fail(tag % ("%s-raised-%s" % (where, type(error).__name__)), case, "rows readable", repr(error))
                return
            part.transitions += 1 + len(usable)
            if len(events) != len(usable):
                part.fail(tag % (where + "-row-count"), case, len(usable), len(events))
                return
            for cell, event in zip(usable, events):
                expected, _ = fieldmodel.validate(decl, cell.ljust(decl["width"]) if decl["fmt"] == "fixed" else cell)
                if expected is None:
                    continue
                part.validated += 1
                observed = "reject" if isinstance(event, errors.DataError) else "accept"
                narrowed = {"decl": case["decl"], "cells": [cell], "path": where}
                if observed != expected:
                    part.fail(tag % ("%s expected=%s observed=%s" % (where, expected, observed)), narrowed, expected, str(event))
                elif observed == "reject" and ("'%s'" % decl["name"]) not in str(event):
                    part.fail(tag % (where + " error does not name the field"), narrowed, decl["name"], str(event))
    if decl["fmt"] in ("excel", "ods"):
        # the same cells stored in a workbook / spreadsheet document and read through the container reader: same verdicts; with them cells whose
        # surplus or disallowed characters sit behind a run of blanks, a tabulator or a line break (which ODF stores as elements of their own)
        payload = next((c for c in case["cells"] if len(c) >= 3 and fieldmodel.validate(decl, c)[0] == "accept"), None)
        extras = []
        if payload is not None:
            extras = [payload[:-2] + "  " + payload, payload[:-1] + "\t" + payload, payload[:-1] + "\n" + payload, payload[:-3] + "  " + "~", payload[:-3] + "  " + "\xe9", payload[:-2] + "  ", payload[:1] + "  " + payload[3:]]
        cells = list(dict.fromkeys(list(case["cells"]) + extras))
        for numeric in ((False, True) if decl["fmt"] == "excel" and field_type in ("Integer", "Decimal") else (False,)):
            where = "container-path" + (":number-cells" if numeric else "")
            try:
                usable, verdicts = c02.observe_via_cid(decl, cells + (["0", "1", "10", "-1"] if numeric else []), numeric_cells=numeric)
            except Exception as error:
                part.fail(tag % ("%s-raised-%s" % (where, type(error).__name__)), case, "rows readable", repr(error))
                return
            part.transitions += 1 + len(usable)
            if len(verdicts) != len(usable):
                part.fail(tag % (where + "-row-count"), case, len(usable), len(verdicts))
                return
            for cell, observed in zip(usable, verdicts):
                expected, _ = fieldmodel.validate(decl, cell)
                if expected is None:
                    continue
                part.validated += 1
                if observed != expected:
                    part.fail(tag % ("%s expected=%s observed=%s" % (where, expected, observed)), {"decl": case["decl"], "cells": [cell], "path": where}, expected, observed)
        return
    if decl["fmt"] in ("delimited", "fixed"):
        # and written through the validating Writer behind one header row (fixed data without line delimiter): the guards are the same
        try:
            verdicts = observe_via_writer(decl, usable)
        except Exception as error:
            part.fail(tag % ("writer-path-raised-" + type(error).__name__), case, "rows written or rejected", repr(error))
            return
        part.transitions += len(usable)
        for cell, observed in zip(usable, verdicts):
            expected, _ = fieldmodel.validate(decl, cell.ljust(decl["width"]) if decl["fmt"] == "fixed" else cell)
            if expected is None:
                continue
            part.validated += 1
            if observed != expected:
                part.fail(tag % ("writer-path expected=%s observed=%s" % (expected, observed)), {"decl": case["decl"], "cells": [cell], "path": "writer"}, expected, observed)


def observe_via_writer(decl, cells):
    """The cells written one per row through cutplace.Writer under a CID with one header row (fixed data: without line delimiter). -> verdict per cell"""
    import cutplace

    m = harness.modules()
    fixed = decl["fmt"] == "fixed"
    rows = harness.cid_rows(decl["preset"], [decl], header=1, allowed=decl.get("allowed"), line_delimiter="none" if fixed else "lf")
    writer = cutplace.Writer(harness.make_cid(rows), io.StringIO(newline=""))
    writer.write_row(["h"])
    verdicts = []
    for cell in cells:
        try:
            writer.write_row([cell])
            verdicts.append("accept")
        except m["errors"].DataError:
            verdicts.append("reject")
    return verdicts


def all_cases(tier="quick"):
    cases = []
    default_presets = ("delimited", "fixed", "excel", "ods") + (("delimited_de", "fixed_de") if tier == "thorough" else ())
    plan = [(field_type, entry, default_presets) for field_type, entry in list(TYPES.items()) + [("Text", (None, "ABCD", [65, 90]))]]
    # Decimal cells written with thousands separators: the guards judge the cell as it stands in the data, separators included
    plan.append(("Decimal", (None, "1,234.5", [44, 57]), ("delimited_us",)))
    plan.append(("Decimal", (None, "1.234,5", [44, 57]), ("delimited_de", "fixed_de")))
    for field_type, (rule, payload, code_range), presets in plan:
        size = len(payload)
        for preset in presets:
            fixed = preset.startswith("fixed")
            if preset.endswith("_de") and field_type == "Decimal" and "," not in payload:
                continue  # the Decimal payload is written with the default separators
            for empty in (False, True):
                lengths = {"exact": None} if fixed else length_options(size, tier)
                for length_name, length in lengths.items():
                    if field_type == "Constant" and not fixed and length is not None and not fieldmodel.length_accepts(length, size):
                        continue  # a Constant's length must admit its value (structural rule, C09)
                    if field_type == "Constant" and empty:
                        continue  # a non-empty Constant cannot be marked as possibly empty (C09)
                    if field_type == "Integer" and length_name in ("zero-or-size", "up-to-zero"):
                        continue  # an Integer length admitting 0 characters is refused when the field is declared
                    for allowed_name, allowed in allowed_options(code_range, fixed).items():
                        decl = {"type": field_type, "preset": preset, "empty": empty, "rule": rule}
                        widths = [None]
                        if fixed:
                            widths = [size] if field_type == "Constant" else ([size + 2] if tier == "quick" else [size, size + 2, size + 6])
                        for width in widths:
                            decl = {"type": field_type, "preset": preset, "empty": empty, "rule": rule}
                            if fixed:
                                decl["width"] = width
                            elif length:
                                decl["length"] = length
                            if allowed:
                                decl["allowed"] = allowed
                            completed = harness.complete(decl)
                            cases.append({"decl": decl, "cells": cells_for(completed, payload, allowed_name, tier), "dims": [length_name, allowed_name]})
    return cases


def work(group):
    part = Part()
    for case in group:
        judge(case, part)
    part.sample(group[len(group) // 2], limit=1)
    return part


def run(ctx):
    cases = all_cases(ctx.tier)
    thorough = ctx.tier == "thorough"
    ctx.bound = {"declarations": len(cases), "product": "8 types x {empty allowed, not} x %d length declarations (fixed: %s) x 4 allowed-character ranges x %s" % (
                     11 if thorough else 6, "widths payload, +2, +6" if thorough else "the exact width", "{delimited, fixed, excel, ods, delimited_de, fixed_de}" if thorough else "{delimited, fixed, excel, ods}"),
                 "cells": "empty, blank-only (1, 3, width, width+1), payload, one short, one long, padded left/right, one disallowed character at every position" + (
                     " (thorough: every character str.strip() removes, NUL, DEL, soft hyphen, BOM, an astral character; two disallowed characters)" if thorough else "")}
    ctx.rule = ("full product, no sampling; a case is one declaration with its guard-oriented cell list, validated on the real field format; "
                "non-trivial = every declaration (each has cells that must be rejected by a guard); states = distinct declarations")
    ctx.assumptions = ["a blank-only fixed cell while blanks are not allowed is not judged (empty vs. disallowed character is not settled by the statement); partly filled cells are",
                       "the type's empty value is None for Integer/Decimal/DateTime and '' for the text-like types"]
    ctx.pmap(MOD, "work", engine.chunks(cases, 40), label="C03")
