"""C04 — a row is accepted iff all cells and row checks pass; errors name the culprit.

LTS: reader machine, state (row number, accepted, rejected, check bookkeeping), transition
row(shape).  Explorer (H): BFS over tables with canonical-state merging (snapshot of the real
Reader counters and check objects); every edge re-runs the whole table on a fresh reader in
on_error='yield' mode and compares every event with mc/models/rowmodel.py.
"""
import itertools

from mc import engine, harness, readermachine
from mc.core import Part
from mc.models import rowmodel

MOD = "mc.props.c04"
FIELD_SETS = [
    ["id"], ["name", "id"], ["id", "name", "kind"], ["kind", "amount", "day"], ["code", "tag", "const", "note"],
    ["id", "amount", "day", "code", "num"], ["num", "note"], ["const", "id", "kind", "tag", "name"], ["day", "num", "name"],
    ["amount", "name"], ["tag", "code"], ["note", "kind", "id"], ["stamp", "id"], ["kind", "note"], ["pct", "name"], ["kt1", "kt2"],
]


def configs(tier):
    result = []
    presets = ["delimited", "fixed", "ods", "excel"]
    for index, fields in enumerate(FIELD_SETS):
        for preset in presets:
            for header in (0, 1, 2):
                if tier == "quick" and (index + header + presets.index(preset)) % 2 != 0 and preset in ("ods", "excel"):
                    continue
                checks = []
                if "id" in fields and index % 2 == 0:
                    checks.append(["uniq", "IsUnique", "id"])
                if "kind" in fields:
                    checks.append(["dc " if header == 1 else (" dc" if header == 2 else "dc"), "DistinctCount", "kind < 3"])  # descriptions may carry blanks at either end
                if "kt1" in fields:
                    checks.append(["pair", "IsUnique", "kt1, kt2"])  # keys holding tabs: distinct pairs whose joined texts are equal
                if "amount" in fields and "id" not in fields:
                    checks.append(["uniq amount", "IsUnique", "amount"])  # keys are the cell texts: 1.5 and 1.50 differ
                config = {"preset": preset, "header": header, "fields": fields, "checks": checks}
                if preset == "ods":
                    config["odf"] = {"col_runs": True}  # runs of equal cells are stored once, as office suites do
                result.append(config)
                if "note" in fields and header == 0 and preset in ("delimited", "ods"):
                    # the same under a data format that allows ASCII only: the restriction applies to every field, also to free text without length
                    result.append(dict(config, allowed=[[32, 126, False]]))
                if "const" in fields and header == 0 and preset in ("delimited", "fixed"):
                    # allowed characters written with quoted capital letters ("A"..."Z"): the value of that property is case sensitive
                    result.append(dict(config, allowed=[[32, 32, True], [46, 57, False], [65, 90, False], [97, 122, False]], allowed_quoted=True))
                    result.append(dict(config, allowed=[[32, 32, True], [46, 57, False], [97, 122, False]], allowed_quoted=True))
    return result


def judge(case, part):
    """case: {"config": ..., "table": [[cell, ...], ...]} -> canonical snapshot of the reader after the run."""
    if "malformed_at" in case:
        return judge_malformed_line(case, part)
    config = case["config"]
    decls = readermachine.decls_for(config)
    fmt = decls[0]["fmt"]
    table = case["table"]
    tag = "%s|header=%d|%%s" % (config["preset"], config.get("header", 0))
    cid = readermachine.make_cid(config, decls)
    source, basename = readermachine.store(config, decls, table)
    raw = rowmodel.stored_rows(fmt, decls, table)
    prediction = rowmodel.predict(decls, config.get("checks", ()), config.get("header", 0), None, raw)
    observation = readermachine.run_reader(cid, source, "yield")
    part.evaluations += 1
    if any(event[0] == "rej" for event in prediction["events"]):
        part.nontrivial += 1
    for event in observation["events"]:
        part.outcome(event[0] if event[0] == "row" else event[1]["type"])
    readermachine.compare_yield(prediction, observation, basename, part, tag, case, config["fields"])
    if config.get("checks") and fmt in ("delimited", "fixed") and table:
        # two Readers constructed up front on one CID, consumed one after the other: the second run is judged like the first
        m = harness.modules()
        shared = readermachine.make_cid(config, decls)
        first = m["validio"].Reader(shared, readermachine.store(config, decls, table)[0], on_error="yield")
        second = m["validio"].Reader(shared, readermachine.store(config, decls, table)[0], on_error="yield")
        readermachine.run_reader(shared, None, reader=first)
        later = readermachine.run_reader(shared, None, reader=second)
        readermachine.compare_yield(prediction, later, basename, part, tag.replace("%s", "second-reader-constructed-up-front:%s"), case, config["fields"])
    if table and any(event[0] == "rej" for event in prediction["events"]):
        # one Reader iterated a second time over the rewound source: the second pass is a read of the same data, judged like the first
        # (row numbers start again at 1)
        again_cid = readermachine.make_cid(config, decls)
        again_source, _ = readermachine.store(config, decls, table)
        again = harness.modules()["validio"].Reader(again_cid, again_source, on_error="yield")
        readermachine.run_reader(again_cid, None, reader=again, close=False)
        if not isinstance(again_source, str):
            again_source.seek(0)
        second_pass = readermachine.run_reader(again_cid, None, reader=again)
        part.transitions += 2
        readermachine.compare_yield(prediction, second_pass, basename, part, tag.replace("%s", "second-pass-over-one-reader:%s"), case, config["fields"])
    # product state: the implementation's snapshot together with the model's state, so that an
    # implementation that "forgets" something cannot make distinct model states merge
    model_run = prediction["run"]
    return (observation["snapshot"], (model_run.row_number, model_run.accepted, model_run.rejected, model_run.check_state()))


def judge_malformed_line(case, part):
    """Fixed data with one line that is no row (surplus characters, another line end than the declared one): the rows before it are judged as ever, the
    line itself is reported as a data format error at its own row number and never handed out as a row."""
    config = case["config"]
    decls = readermachine.decls_for(config)
    table, at, fault = case["table"], case["malformed_at"], case["fault"]
    tag = "%s|header=%d|malformed-line:%s|%%s" % (config["preset"], config.get("header", 0), fault)
    cid = readermachine.make_cid(config, decls)
    lines = ["".join(cell.ljust(decl["width"]) for cell, decl in zip(row, decls)) for row in table]
    text = "".join(line + ("x\n" if index == at and fault == "surplus-character" else ("\r" if index == at else "\n")) for index, line in enumerate(lines))
    raw = rowmodel.stored_rows("fixed", decls, table[:at])
    prediction = rowmodel.predict(decls, config.get("checks", ()), config.get("header", 0), None, raw)
    observation = readermachine.run_reader(cid, harness.NamedStringIO(text, "data.txt"), "yield", close=False)
    part.evaluations += 1
    part.nontrivial += 1
    part.transitions += len(table)
    part.validated += 1
    raised = observation["raised"]
    if raised is None or raised["type"] != "DataFormatError":
        part.fail(tag % "not-reported-as-data-format-error", case, "DataFormatError at row %d" % (at + 1), raised)
        return
    if raised.get("line") != at:
        part.fail(tag % "row-number", case, at + 1, raised)
    expected = [event[0] for event in prediction["events"]]
    observed = [("row" if event[0] == "row" else "rej") for event in observation["events"]]
    if expected != observed:
        part.fail(tag % "events-before-the-malformed-line", case, expected, observed)
    elif [e[1] for e in prediction["events"] if e[0] == "row"] != [e[1] for e in observation["events"] if e[0] == "row"]:
        part.fail(tag % "rows-before-the-malformed-line", case, [e[1] for e in prediction["events"] if e[0] == "row"], [e[1] for e in observation["events"] if e[0] == "row"])


def explore(item):
    config, depth, merge = item
    part = Part()
    decls = readermachine.decls_for(config)
    shapes = readermachine.row_shapes(config, decls)
    rows = {name: row for name, row in shapes}
    names = [name for name, _ in shapes]
    if decls[0]["fmt"] == "fixed" and merge and config.get("line_delimiter", "lf") == "lf" and "line_end" not in config:
        usable = names[:3]
        for count in (1, 2, 3):
            for history in itertools.product(usable, repeat=count):
                for at in range(count):
                    for fault in ("surplus-character", "cr-instead-of-lf"):
                        judge_malformed_line({"config": config, "table": [rows[name] for name in history], "malformed_at": at, "fault": fault}, part)

    def run(history):
        return judge({"config": config, "table": [rows[name] for name in history]}, part)

    result = engine.bfs(run, names, part, max_depth=depth, merge=merge, max_states=4000)
    part.note("configurations explored")
    part.note("max depth completed %d" % result["depth_completed"])
    if result["capped"]:
        part.note("state cap hit")
    part.sample({"config": config, "row shapes": shapes[:6], "states": result["states"], "transitions": result["transitions"], "depth": result["depth_completed"]}, limit=1)
    return part


def run(ctx):
    quick = ctx.tier == "quick"
    items = []
    for config in configs(ctx.tier):
        file_based = config["preset"] in ("ods", "excel")
        if quick:
            depth = 4 if file_based else 5
        else:
            depth = 5 if file_based else 8
        if config["checks"] and not quick:
            depth = min(depth, 6 if not file_based else 4)
        items.append((config, depth, True))
    if not quick:
        # cross-check of the merging: plain enumeration of all tables up to depth 3 for the text formats
        for config in configs("quick"):
            if config["preset"] in ("delimited", "fixed") and config["header"] < 2:
                items.append((config, 3, False))
    items.sort(key=lambda item: -(item[1] * (5 if item[0]["preset"] in ("ods", "excel") else 1)))
    ctx.bound = {"configurations": len(items), "field sets": len(FIELD_SETS), "formats": ["delimited", "fixed", "ods", "excel"], "header": "0..2",
                 "depth": "quick: tables of up to 5 rows (files: 4); thorough: up to 8 rows (files 5; with checks 6/4), plus unmerged enumeration to depth 3",
                 "row shapes": "2-3 accepted rows, one rejected cell per column, two rejected cells, one item short, one long, empty row"}
    ctx.rule = ("BFS over tables: every row shape is appended in every distinct reader state (snapshot of counters, location and check objects); each edge re-runs the "
                "whole table on a fresh Reader and compares every yielded row / error (class, row number incl. header, first offending column, field and input name "
                "in the text), counters and the end-of-data verdict with the row model; non-trivial = table containing at least one rejected row")
    ctx.assumptions = ["xlsx sheets do not store empty strings: rows are padded to the sheet width and trailing empty rows do not exist (modelled)",
                       "for item-count mismatches only the row is compared, not the column"]
    ctx.pmap(MOD, "explore", items, label="C04")
