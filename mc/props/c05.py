"""C05 — uniqueness and distinct-count checks are decided over the whole data set.

Explorer (H) on the reader machine restricted to key / counted fields: BFS over row sequences
with product-state merging (real check objects' maps + model maps), depth 10 (quick 6).  Every
edge is run in 'yield' mode (full comparison incl. first-occurrence back reference), in
'continue' mode and in 'raise' mode (end-of-data verdict over the rows that reached the check).
"""
import csv
import itertools
import os

from mc import engine, harness, readermachine
from mc.core import Part
from mc.models import rowmodel

MOD = "mc.props.c05"
OPS = ["<", "<=", "==", "!=", ">=", ">"]


def configs(tier):
    result = []
    for preset in ("delimited", "fixed"):
        for keys in (["ka"], ["ka", "kb"], ["kb", "ka"], ["ka", "kb", "kc"]):
            fields = ["ka", "kb", "kc"][: max(2, len(keys))] if len(keys) < 3 else ["ka", "kb", "kc"]
            result.append({"preset": preset, "header": 0, "fields": fields, "checks": [["u", "IsUnique", ", ".join(keys)]], "family": "unique"})
        result.append({"preset": preset, "header": 1, "fields": ["ka", "kb"], "checks": [["u", "IsUnique", "kb"]], "family": "unique"})
        for op in OPS:
            for number in range(0, 5):
                result.append({"preset": preset, "header": 0, "fields": ["v"], "checks": [["d", "DistinctCount", "v %s %d" % (op, number)]], "family": "distinct"})
        for order in (0, 1):
            for rule in ("v < 3", "v >= 2"):
                checks = [["u", "IsUnique", "ka"], ["d", "DistinctCount", rule]]
                if order:
                    checks.reverse()
                result.append({"preset": preset, "header": 0, "fields": ["ka", "v"], "checks": checks, "family": "both"})
        result.append({"preset": preset, "header": 0, "fields": ["ka", "kb"], "checks": [["u1", "IsUnique", "ka"], ["u2", "IsUnique", "kb"]], "family": "two-unique"})
        result.append({"preset": preset, "header": 0, "fields": ["kt1", "kt2"], "checks": [["u", "IsUnique", "kt1, kt2"]], "family": "unique"})
        result.append({"preset": preset, "header": 0, "fields": ["kc1", "kc2"], "checks": [["u", "IsUnique", "kc1, kc2"]], "family": "unique"})
        # two fields whose names differ only in case: a rule names exactly the field it spells
        result.append({"preset": preset, "header": 0, "fields": ["ka", "KA"], "checks": [["u", "IsUnique", "KA"]], "family": "unique"})
        result.append({"preset": preset, "header": 0, "fields": ["ka", "KA"], "checks": [["d", "DistinctCount", "KA < 2"]], "family": "distinct"})
        # an optional counted field: the empty value is a value like any other
        for rule in ("kind == 1", "kind >= 2", "kind < 2", "kind != 1", "kind <= 0", "kind > 2"):
            result.append({"preset": preset, "header": 0, "fields": ["ka", "kind"], "checks": [["d", "DistinctCount", rule]], "family": "distinct"})
        # keys and counted values that differ only in the position of a blank
        result.append({"preset": preset, "header": 0, "fields": ["kl"], "checks": [["u", "IsUnique", "kl"]], "family": "unique"})
        for rule in ("kl >= 3", "kl == 2", "kl < 4"):
            result.append({"preset": preset, "header": 0, "fields": ["kl"], "checks": [["d", "DistinctCount", rule]], "family": "distinct"})
    return result


def shapes_for(config, decls):
    names = config["fields"]
    pools = []
    for name in names:
        accepted = readermachine.CATALOGUE[name][2]
        pools.append(accepted[:3] if name == "v" and config["family"] == "both" else accepted)
    shapes = [("k:" + "".join(combo), list(combo)) for combo in itertools.product(*pools)]
    bad = list(shapes[0][1])
    bad[0] = readermachine.CATALOGUE[names[0]][3][0]
    shapes.append(("field-rejected", bad))
    if decls[0]["fmt"] != "fixed":
        shapes.append(("short", shapes[0][1][:-1]))
    return shapes


def judge(case, part):
    config = case["config"]
    decls = readermachine.decls_for(config)
    fmt = decls[0]["fmt"]
    table = case["table"]
    tag = "%s|%s|%%s" % (config["preset"], config["family"])
    raw = rowmodel.stored_rows(fmt, decls, table)
    header = config.get("header", 0)
    prediction = rowmodel.predict(decls, config["checks"], header, None, raw)
    if prediction["run"].keys_not_registered:
        # the table holds a row that a later-declared IsUnique check rejected after an earlier-declared one had passed it (see KF-C05-key-of-rejected-row)
        tag = "%s|%s|after-a-row-rejected-by-a-later-IsUnique:%%s" % (config["preset"], config["family"])
    part.evaluations += 1
    if any(e[0] == "rej" and e[1]["class"] == "CheckError" for e in prediction["events"]) or prediction["close"]:
        part.nontrivial += 1
    # yield mode: full comparison
    cid = readermachine.make_cid(config, decls)
    source, basename = readermachine.store(config, decls, table)
    observation = readermachine.run_reader(cid, source, "yield")
    readermachine.compare_yield(prediction, observation, basename, part, tag % "yield:%s" if False else tag, case, config["fields"])
    part.outcome("close:%s" % ("fails" if observation.get("close") else "passes"))
    for event in observation["events"]:
        if event[0] == "err":
            part.outcome(event[1]["type"])
    # continue mode: exactly the accepted rows, same end verdict
    cid2 = readermachine.make_cid(config, decls)
    source2, _ = readermachine.store(config, decls, table)
    cont = readermachine.run_reader(cid2, source2, "continue")
    part.transitions += 1
    part.validated += 1
    expected_rows = [e[1] for e in prediction["events"] if e[0] == "row"]
    if cont["raised"] is not None or [e[1] for e in cont["events"]] != expected_rows:
        part.fail(tag % "continue-mode-rows", case, expected_rows, [cont["raised"], cont["events"]])
    if (cont.get("close") is None) != (prediction["close"] is None):
        part.fail(tag % "continue-mode-end-verdict", case, prediction["close"], cont.get("close"))
    # raise mode: stops at the first rejection; the end verdict covers the rows that reached the check
    first_bad = next((i for i, e in enumerate(prediction["events"]) if e[0] == "rej"), None)
    cid3 = readermachine.make_cid(config, decls)
    source3, _ = readermachine.store(config, decls, table)
    raised = readermachine.run_reader(cid3, source3, "raise")
    part.transitions += 1
    part.validated += 1
    if first_bad is None:
        if raised["raised"] is not None or (raised.get("close") is None) != (prediction["close"] is None):
            part.fail(tag % "raise-mode-clean-table", case, prediction["close"], [raised["raised"], raised.get("close")])
    else:
        info = prediction["events"][first_bad][1]
        if raised["raised"] is None or raised["raised"]["type"] != info["class"] or raised["raised"].get("line", -9) + 1 != info["row"]:
            part.fail(tag % "raise-mode-first-error", case, info, raised["raised"])
        partial = rowmodel.predict(decls, config["checks"], header, None, raw[: info["row"]])
        if (raised.get("close") is None) != (partial["close"] is None):
            part.fail(tag % "raise-mode-end-verdict-over-rows-seen", case, partial["close"], raised.get("close"))
    # the same through the convenience entry point cutplace.rows(): the end-of-data verdict is delivered when the rows are exhausted
    from mc.props import c06

    for mode in ("yield", "continue"):
        cid5 = readermachine.make_cid(config, decls)
        source5, _ = readermachine.store(config, decls, table)
        api_events, api_raised = c06.api_rows(cid5, source5, mode)
        part.transitions += 1
        part.validated += 1
        if mode == "yield":
            expected_kinds = ["row" if e[0] == "row" else "err" for e in prediction["events"]]
        else:
            expected_kinds = ["row" for e in prediction["events"] if e[0] == "row"]
        if [e[0] for e in api_events] != expected_kinds:
            part.fail(tag % ("cutplace.rows-%s-events" % mode), case, expected_kinds, api_events)
        expected_end = prediction["close"]
        if (api_raised is None) != (expected_end is None) or (api_raised is not None and api_raised.get("type") != "CheckError"):
            part.fail(tag % ("cutplace.rows-%s-end-of-data-verdict" % mode), case, "CheckError" if expected_end else "no error", api_raised)
    # the validate-only entry point, without a limit and with one that covers all rows or all but the last: it fails iff a row within the limit is
    # rejected or the end-of-data verdict over the rows within the limit fails
    import cutplace

    errors = harness.modules()["errors"]
    for limit in dict.fromkeys((None, len(table), max(len(table) - 1, 0))):
        limited = prediction if limit is None else rowmodel.predict(decls, config["checks"], header, limit, raw)
        bad = next((e[1] for e in limited["events"] if e[0] == "rej"), None)
        expected_class = bad["class"] if bad is not None else ("CheckError" if limited["close"] else None)
        source6, _ = readermachine.store(config, decls, table)
        try:
            cutplace.validate(readermachine.make_cid(config, decls), source6, validate_until=limit)
            observed_class = None
        except errors.CutplaceError as error:
            observed_class = type(error).__name__
        except Exception as error:
            observed_class = "foreign:" + type(error).__name__
        part.transitions += 1
        part.validated += 1
        if observed_class != expected_class:
            part.fail(tag % ("cutplace.validate%s:%s-but-expected-%s" % ("" if limit is None else "-with-limit", observed_class, expected_class)), dict(case, limit=limit), expected_class, observed_class)
    if len(table) <= 3 and not isinstance(source, str):
        # the command line: exit code 1 iff a row is rejected or finishing the validation fails
        from cutplace import applications

        folder = readermachine.tmpdir()
        cid_path, data_path = os.path.join(folder, "c05_cid_%d.csv" % os.getpid()), os.path.join(folder, "c05_data_%d.txt" % os.getpid())
        with open(cid_path, "w", newline="", encoding="utf-8") as stream:
            csv.writer(stream).writerows(readermachine.cid_rows_of(config, decls))
        with open(data_path, "w", newline="", encoding="cp1252") as stream:
            stream.write(readermachine.store(config, decls, table)[0].getvalue())
        try:
            code = applications.main(["cutplace", cid_path, data_path])
        except SystemExit as error:
            code = "exit:%s" % error.code
        except Exception as error:
            code = "raised-" + type(error).__name__
        part.transitions += 1
        part.validated += 1
        expected_code = 1 if (first_bad is not None or prediction["close"]) else 0
        if code != expected_code:
            part.fail(tag % ("command-line-exit-%s-but-expected-%d" % (code, expected_code)), case, expected_code, code)
    # a reader constructed first, then another complete read of the same data on the same CID, then the first reader
    # is consumed: its verdicts must still be those of its own data set alone
    m = harness.modules()
    cid4 = readermachine.make_cid(config, decls)
    source4, basename4 = readermachine.store(config, decls, table)
    early = m["validio"].Reader(cid4, source4, on_error="yield")
    other_source, _ = readermachine.store(config, decls, table, name="other")
    readermachine.run_reader(cid4, other_source, "continue")
    late = readermachine.run_reader(cid4, source4, "yield", reader=early)
    part.transitions += 2
    readermachine.compare_yield(prediction, late, basename4, part, tag.replace("%s", "reader-constructed-before-another-read:%s"), case, config["fields"])
    model_run = prediction["run"]
    return (observation["snapshot"], (model_run.row_number, model_run.accepted, model_run.rejected, model_run.check_state()))


def explore(item):
    config, depth, merge = item
    part = Part()
    decls = readermachine.decls_for(config)
    shapes = shapes_for(config, decls)
    rows = dict(shapes)
    names = [name for name, _ in shapes]

    def run(history):
        return judge({"config": config, "table": [rows[name] for name in history]}, part)

    result = engine.bfs(run, names, part, max_depth=depth, merge=merge, max_states=6000)
    part.note("max depth completed %d" % result["depth_completed"])
    if result["capped"]:
        part.note("state cap hit (search stopped early for one configuration)")
    part.sample({"config": config, "row shapes": shapes[:5], "states": result["states"], "transitions": result["transitions"], "depth": result["depth_completed"]}, limit=1)
    return part


def run(ctx):
    quick = ctx.tier == "quick"
    items = []
    for config in configs(ctx.tier):
        family = config["family"]
        if family == "distinct":
            depth = 6 if quick else 8
        elif family == "unique":
            depth = 4 if quick else (6 if len(config["fields"]) == 3 else 8)
            if config["checks"][0][2] == "ka":
                depth = 6 if quick else 10
        else:
            depth = 4 if quick else 6
        items.append((config, depth, True))
    if not quick:
        for config in configs("quick"):
            if config["family"] in ("both", "two-unique") or (config["family"] == "unique" and len(config["fields"]) == 2):
                items.append((config, 4, False))
    items.sort(key=lambda item: -item[1] * len(item[0]["fields"]))
    ctx.bound = {"configurations": len(items), "key sets": "1..3 fields (alphabet of 2 values per key field: duplicates at every pair of positions)",
                 "distinct count": "all 6 comparison operators x thresholds 0..4 over a 5-value alphabet", "orders": "IsUnique before / after DistinctCount, two IsUnique checks",
                 "depth": "quick 4-6 rows, thorough 6-10 rows with merging, plus unmerged enumeration to depth 4", "modes": ["yield", "continue", "raise"]}
    ctx.rule = ("BFS over row sequences with product-state merging; each edge re-runs the table on fresh readers in all three error modes; non-trivial = table with a "
                "check rejection or a failing end-of-data verdict; states = distinct (reader counters, check maps, model maps)")
    ctx.assumptions = ["rows that were vetoed by an earlier-declared check do not reach later checks (statement: 'rows that reached the check')"]
    ctx.pmap(MOD, "explore", items, label="C05")
