"""C06 — error-handling modes agree with each other and account for every row.

(1) Relational check on the reader machine: BFS over tables (as C04, plus CIDs with end-of-data
checks); every edge runs the table through cutplace.rows in the three modes and through Reader
objects (counters) and compares the modes with each other.
(2) Fault enumeration: a malformed container at every row boundary must stop reading with a
DataFormatError in every mode.
"""
import io
import os

from mc import engine, harness, readermachine
from mc.core import Part
from mc.models import rowmodel
from mc.props import c04

MOD = "mc.props.c06"
MODES = ("yield", "continue", "raise")


def api_rows(cid, source, mode):
    """cutplace.rows(...) consumed completely. -> (events, raised)"""
    import cutplace

    m = harness.modules()
    events = []
    raised = None
    try:
        for item in cutplace.rows(cid, source, on_error=mode):
            if isinstance(item, Exception):
                events.append(["err", harness.describe_error(item)])
            else:
                events.append(["row", item])  # copied only after the iteration, as list(cutplace.rows(...)) would see it
    except m["errors"].CutplaceError as error:
        raised = harness.describe_error(error)
    except Exception as error:
        raised = {"type": type(error).__name__, "text": repr(error), "foreign": True}
    return [["row", list(event[1])] if event[0] == "row" else event for event in events], raised


def same_error(a, b):
    return a is not None and b is not None and all(a.get(k) == b.get(k) for k in ("type", "line", "cell", "text"))


def judge(case, part):
    if "fault" in case:  # replay of a container fault
        return xls_fault_case(case, part) if case["fault"]["kind"] == "xls-byte" else fault_case(case, part)
    config = case["config"]
    decls = readermachine.decls_for(config)
    fmt = decls[0]["fmt"]
    table = case["table"]
    tag = "%s|%%s" % config["preset"]
    part.evaluations += 1
    runs = {}
    for mode in MODES:
        cid = readermachine.make_cid(config, decls)
        source, _ = readermachine.store(config, decls, table)
        runs[mode] = api_rows(cid, source, mode)
        part.transitions += 1
    for mode in MODES:
        # data problems end a run with a cutplace error or not at all: anything else means the pass was not completed as the mode promises
        if runs[mode][1] is not None and runs[mode][1].get("foreign"):
            part.fail(tag % ("%s-run-ended-with-%s" % (mode, runs[mode][1]["type"])), case, "rows, rejections or a cutplace error", runs[mode][1])
    yield_events, yield_raised = runs["yield"]
    errors_yielded = [e for e in yield_events if e[0] == "err"]
    rows_yielded = [e[1] for e in yield_events if e[0] == "row"]
    if errors_yielded:
        part.nontrivial += 1
    part.outcome("yield:%d-errors:end=%s" % (min(len(errors_yielded), 2), yield_raised["type"] if yield_raised else None))
    # yield: rows unchanged and in input order (compared with the stored table)
    raw = rowmodel.stored_rows(fmt, decls, table)[config.get("header", 0):]
    part.validated += 1
    if len(yield_events) != len(raw):
        part.fail(tag % "yield-does-not-account-for-every-row", case, len(raw), yield_events)
    else:
        for event, stored in zip(yield_events, raw):
            if event[0] == "row" and event[1] != stored:
                part.fail(tag % "yield-row-changed", case, stored, event[1])
    # continue: exactly the accepted rows of yield, same end-of-data outcome
    continue_events, continue_raised = runs["continue"]
    part.validated += 1
    if [e[1] for e in continue_events] != rows_yielded or any(e[0] != "row" for e in continue_events):
        part.fail(tag % "continue-differs-from-accepted-rows-of-yield", case, rows_yielded, continue_events)
    if (continue_raised is None) != (yield_raised is None) or (yield_raised and not same_error(yield_raised, continue_raised)):
        part.fail(tag % "continue-end-of-data-outcome-differs", case, yield_raised, continue_raised)
    # raise: rows before the first rejection, then that same error
    raise_events, raise_raised = runs["raise"]
    part.validated += 1
    if errors_yielded:
        first = next(i for i, e in enumerate(yield_events) if e[0] == "err")
        if raise_events != yield_events[:first]:
            part.fail(tag % "raise-rows-before-first-rejection-differ", case, yield_events[:first], raise_events)
        if not same_error(raise_raised, yield_events[first][1]):
            part.fail(tag % "raise-does-not-raise-the-first-yield-error", case, yield_events[first][1], raise_raised)
    else:
        if raise_events != yield_events:
            part.fail(tag % "raise-rows-differ-on-clean-table", case, yield_events, raise_events)
        if (raise_raised is None) != (yield_raised is None) or (yield_raised and not same_error(yield_raised, raise_raised)):
            part.fail(tag % "raise-end-of-data-outcome-differs", case, yield_raised, raise_raised)
    # counters after a complete pass (Reader objects), and error locations after iteration
    snapshot = None
    for mode in ("yield", "continue"):
        cid = readermachine.make_cid(config, decls)
        source, _ = readermachine.store(config, decls, table)
        observation = readermachine.run_reader(cid, source, mode)
        part.transitions += 1
        part.validated += 1
        if observation["raised"] is None:
            if observation["accepted"] + observation["rejected"] != len(raw):
                part.fail(tag % ("counters-do-not-add-up:" + mode), case, len(raw), [observation["accepted"], observation["rejected"]])
            if observation["accepted"] != len(rows_yielded) or observation["rejected"] != len(errors_yielded):
                part.fail(tag % ("counters-differ-from-events:" + mode), case, [len(rows_yielded), len(errors_yielded)], [observation["accepted"], observation["rejected"]])
        if mode == "yield":
            snapshot = observation["snapshot"]
            for event in observation["events"]:
                if event[0] == "err" and event[1] != event[2]:
                    part.fail(tag % "error-location-changed-after-iteration", case, event[1], event[2])
    # the three readers constructed up front on ONE shared CID, then consumed one after the other:
    # every mode must still give what it gives on its own
    m = harness.modules()
    shared = readermachine.make_cid(config, decls)
    readers = []
    for mode in MODES:
        source, _ = readermachine.store(config, decls, table)
        readers.append((mode, m["validio"].Reader(shared, source, on_error=mode)))
    for mode, reader in readers:
        observation = readermachine.run_reader(shared, None, mode, reader=reader)
        part.transitions += 1
        part.validated += 1
        own_events, own_raised = runs[mode]
        got = [[e[0], e[1]] for e in observation["events"]]
        if got != own_events:
            part.fail(tag % ("readers-constructed-up-front:%s-differs-from-its-own-run" % mode), case, own_events, got)
    return (snapshot, len(raw), tuple(e[0] for e in yield_events))


def explore(item):
    config, depth = item
    part = Part()
    decls = readermachine.decls_for(config)
    shapes = readermachine.row_shapes(config, decls)
    rows = dict(shapes)
    names = [name for name, _ in shapes]

    def run(history):
        return judge({"config": config, "table": [rows[name] for name in history]}, part)

    result = engine.bfs(run, names, part, max_depth=depth, max_states=3000)
    part.sample({"config": config, "states": result["states"], "transitions": result["transitions"], "depth": result["depth_completed"]}, limit=1)
    return part


# ---- container faults ---------------------------------------------------------------------------
def fault_case(case, part):
    """case: {"config", "table", "fault": {...}} -> every mode must end with a DataFormatError."""
    m = harness.modules()
    config = case["config"]
    decls = readermachine.decls_for(config)
    fmt = decls[0]["fmt"]
    fault = case["fault"]
    tag = "%s|fault:%s|%%s" % (config["preset"], fault["kind"])
    part.evaluations += 1
    part.nontrivial += 1
    source, _ = readermachine.store(config, decls, case["table"], name="faulty")
    if isinstance(source, str):
        with open(source, "rb") as binary:
            content = binary.read()
    else:
        content = source.getvalue().encode(fault.get("encoding", "utf-8"))
    kind = fault["kind"]
    if kind == "truncate":
        content = content[: fault["at"]]
    elif kind == "no-central-directory":
        content = content[: content.rindex(b"PK\x01\x02")]
    elif kind == "flip":
        # one byte of the archive inverted; inside the compressed data of a member the reader needs this must end in a data format error
        import zipfile

        needed = {"ods": ("content.xml",), "excel": ("xl/workbook.xml", "xl/worksheets/sheet1.xml", "xl/sharedStrings.xml")}[fmt]
        with zipfile.ZipFile(io.BytesIO(content)) as archive:
            for info in archive.infolist():
                name_length, extra_length = int.from_bytes(content[info.header_offset + 26:info.header_offset + 28], "little"), int.from_bytes(content[info.header_offset + 28:info.header_offset + 30], "little")
                start = info.header_offset + 30 + name_length + extra_length
                if info.filename in needed and start <= fault["at"] < start + info.compress_size:
                    must_fail = True
                    break
            else:
                must_fail = False
        content = content[: fault["at"]] + bytes([content[fault["at"]] ^ 0xFF]) + content[fault["at"] + 1:]
    elif kind == "bad-byte":
        lines = content.split(b"\n")
        lines[fault["row"]] = lines[fault["row"]][:1] + b"\x81" + lines[fault["row"]][2:]
        content = b"\n".join(lines)
    elif kind == "bad-byte-at-delimiter":
        # the first byte of a multi-byte character sits where the line delimiter of that record is read (or the file ends inside it)
        lines = content.split(b"\n")
        lines[fault["row"]] = lines[fault["row"]] + b"\xc3"
        content = b"\n".join(lines)
        if fault.get("drop_tail"):
            content = b"\n".join(lines[: fault["row"] + 1])
    elif kind == "open-quote":
        lines = content.split(b"\n")
        lines[fault["row"]] = fault.get("quote", '"').encode("ascii") + lines[fault["row"]]
        content = b"\n".join(lines)
    elif kind == "cut-record":
        lines = content.split(b"\n")
        lines[fault["row"]] = lines[fault["row"]][: -fault["by"]]
        content = b"\n".join(lines)
        if fault.get("drop_tail"):
            content = content.rstrip(b"\n")
    suffix = {"delimited": ".csv", "fixed": ".txt", "ods": ".ods", "excel": ".xlsx"}[fmt]
    path = os.path.join(readermachine.tmpdir(), "faulty_%d%s" % (os.getpid(), suffix))
    with open(path, "wb") as binary:
        binary.write(content)
    if fmt in ("ods", "excel") and readermachine.archive_still_readable(path):
        part.note("container faults that left the archive fully readable (not judged)")
        return
    extra = ([("encoding", fault["encoding"])] if "encoding" in fault else []) + [tuple(p) for p in fault.get("props", [])]
    for mode in MODES:
        cid = readermachine.make_cid(dict(config, extra=extra), decls)
        events, raised = api_rows(cid, path, mode)
        part.transitions += 1
        part.validated += 1
        part.outcome("fault:%s" % (raised["type"] if raised else "no-error"))
        if kind == "flip" and not must_fail and raised is None:
            continue  # the damage sits where this reader does not look
        if raised is None or raised["type"] != "DataFormatError":
            what = "no-error" if raised is None else raised["type"]
            part.fail(tag % ("%s-mode-ends-with-%s" % (mode, what)), case, "DataFormatError", {"events": len(events), "raised": raised})
    if kind in ("open-quote", "cut-record"):
        # the same damaged text handed over as an open stream instead of a path
        for mode in MODES:
            cid = readermachine.make_cid(dict(config, extra=extra), decls)
            events, raised = api_rows(cid, harness.NamedStringIO(content.decode(fault.get("encoding", "utf-8")), "faulty" + suffix), mode)
            part.transitions += 1
            part.validated += 1
            if raised is None or raised["type"] != "DataFormatError":
                what = "no-error" if raised is None else raised["type"]
                part.fail(tag % ("stream-source:%s-mode-ends-with-%s" % (mode, what)), case, "DataFormatError", {"events": len(events), "raised": raised})


def xls_fault_case(case, part):
    """One byte of the repository's .xls workbook overwritten.  The damage may change cell contents (then rows are merely
    rejected) or break the container: nothing but a cutplace data error may end the reading, and a container failure seen
    in 'yield' mode is a container failure in the other modes too."""
    content = readermachine.xls_material()
    if content is None:
        part.note("no .xls material in the tree (not judged)")
        return
    part.evaluations += 1
    part.nontrivial += 1
    offset, value = case["fault"]["at"], case["fault"]["value"]
    if offset >= len(content) or content[offset] == value:
        return
    path = os.path.join(readermachine.tmpdir(), "faulty.xls")
    with open(path, "wb") as binary:
        binary.write(content[:offset] + bytes([value]) + content[offset + 1:])
    endings = {}
    with readermachine.quiet_stdout():  # xlrd reports oddities of damaged files on the process's standard output
        if not readermachine.xls_terminates(path):
            part.note("damage on which xlrd does not terminate (reported by C10, not judged here)")
            return
        for mode in MODES:
            cid = readermachine.xls_cid()
            events, raised = api_rows(cid, path, mode)
            part.transitions += 1
            part.validated += 1
            ending = ("foreign:" if raised and raised.get("foreign") else "") + (raised["type"] if raised else "complete")
            endings[mode] = ending
            part.outcome("xls-fault:%s" % ending)
            if ending.startswith("foreign"):
                part.fail("excel|fault:xls-byte|%s-mode-ends-with-%s" % (mode, ending), case, "complete or a data error", {"type": raised["type"]})
    if not any(e.startswith("foreign") for e in endings.values()):
        if (endings["yield"] == "DataFormatError") != (endings["continue"] == "DataFormatError") or (endings["yield"] == "DataFormatError" and endings["raise"] == "complete") \
                or (endings["yield"] == "complete" and endings["raise"] == "DataFormatError"):
            part.fail("excel|fault:xls-byte|modes-disagree-about-the-container", case, "a container failure in every mode or in none", endings)


def faults(item):
    part = Part()
    for case in item:
        if case["fault"]["kind"] == "xls-byte":
            xls_fault_case(case, part)
            continue
        fault_case(case, part)
    part.sample(item[0], limit=1)
    return part


def fault_cases(tier):
    cases = []
    table = [["1", "ab", "a"], ["2", "c", "b"], ["3", "xyz", ""], ["42", "ab", "a"]]
    fields = ["id", "name", "kind"]
    for preset in ("delimited", "fixed"):
        config = {"preset": preset, "header": 0, "fields": fields, "checks": []}
        for row in range(len(table)):
            for encoding in ("utf-8", "ascii", "cp1252"):
                cases.append({"config": config, "table": table, "fault": {"kind": "bad-byte", "row": row, "encoding": encoding}})
            cases.append({"config": config, "table": table, "fault": {"kind": "bad-byte-at-delimiter", "row": row, "encoding": "utf-8"}})
            cases.append({"config": config, "table": table, "fault": {"kind": "bad-byte-at-delimiter", "row": row, "encoding": "utf-8", "drop_tail": True}})
            if preset == "delimited":
                cases.append({"config": config, "table": table, "fault": {"kind": "open-quote", "row": row}})
                # the same fault under every relation of quote and escape character, quoting mode and line delimiter
                for quote, props in (('"', [["Escape character", "\\"]]), ("'", [["Quote character", "'"]]), ("'", [["Quote character", "'"], ["Escape character", "\\"]]),
                                     ('"', [["Quoting", "all"]]), ('"', [["Line delimiter", "any"]]), ("~", [["Quote character", "~"]])):
                    cases.append({"config": config, "table": table, "fault": {"kind": "open-quote", "row": row, "quote": quote, "props": props}})
            else:
                for by in range(1, 7):
                    cases.append({"config": config, "table": table, "fault": {"kind": "cut-record", "row": row, "by": by, "drop_tail": row == len(table) - 1}})
    # data of a single record: the fault is reported while the reader is still in its first physical line
    single = [table[0]]
    config = {"preset": "delimited", "header": 0, "fields": fields, "checks": []}
    for encoding in ("utf-8", "ascii"):
        cases.append({"config": config, "table": single, "fault": {"kind": "bad-byte", "row": 0, "encoding": encoding}})
    cases.append({"config": config, "table": single, "fault": {"kind": "open-quote", "row": 0}})
    for quote, props in (('"', [["Escape character", "\\"]]), ("'", [["Quote character", "'"]]), ('"', [["Line delimiter", "any"]])):
        cases.append({"config": config, "table": single, "fault": {"kind": "open-quote", "row": 0, "quote": quote, "props": props}})
    fixed_config = {"preset": "fixed", "header": 0, "fields": fields, "checks": []}
    for by in range(1, 7):
        cases.append({"config": fixed_config, "table": single, "fault": {"kind": "cut-record", "row": 0, "by": by, "drop_tail": True}})
    step = 64 if tier == "quick" else 1
    for preset in ("ods", "excel"):
        config = {"preset": preset, "header": 0, "fields": fields, "checks": []}
        decls = readermachine.decls_for(config)
        source, _ = readermachine.store(config, decls, table, name="probe")
        size = os.path.getsize(source)
        for at in range(0, size, step):
            cases.append({"config": config, "table": table, "fault": {"kind": "truncate", "at": at}})
        cases.append({"config": config, "table": table, "fault": {"kind": "truncate", "at": size - 1}})
        cases.append({"config": config, "table": table, "fault": {"kind": "no-central-directory"}})
        for at in range(0, size, 16 if tier == "quick" else 1):
            cases.append({"config": config, "table": table, "fault": {"kind": "flip", "at": at}})
    material = readermachine.xls_material()
    if material is not None:
        for at in range(0, len(material), 7 if tier == "quick" else 1):
            for value in (0xFF,) if tier == "quick" else (0x00, 0xFF, 0x80, 0x01):
                cases.append({"config": None, "table": None, "fault": {"kind": "xls-byte", "at": at, "value": value}})
    return cases


def run(ctx):
    quick = ctx.tier == "quick"
    items = []
    configs = c04.configs("quick")
    extra_fields = [["id", "kind"], ["kind", "name"]]
    for preset in ("delimited", "fixed", "ods", "excel"):
        for fields in extra_fields:
            for rule in ("kind >= 2", "kind == 1"):
                checks = [["dc", "DistinctCount", rule]]
                if "id" in fields:
                    checks.insert(0, ["uniq", "IsUnique", "id"])
                configs.append({"preset": preset, "header": 0, "fields": fields, "checks": checks})
    # fixed data whose records end in a lone CR, read under 'any' (the reader has to look one character ahead), first fields of width 2 and 3
    for fields in (["num", "note"], ["id", "kind"], ["kb", "ka"]):
        configs.append({"preset": "fixed", "header": 0, "fields": fields, "checks": [], "line_delimiter": "any", "line_end": "\r"})
    for config in configs:
        file_based = config["preset"] in ("ods", "excel")
        depth = (2 if file_based else 4) if quick else (4 if file_based else 6)
        items.append((config, depth))
    items.sort(key=lambda item: -(item[1] * (4 if item[0]["preset"] in ("ods", "excel") else 1)))
    ctx.pmap(MOD, "explore", items, label="C06 modes")
    all_faults = fault_cases(ctx.tier)
    ctx.pmap(MOD, "faults", engine.chunks(all_faults, 25), label="C06 faults")
    ctx.bound = {"mode comparison": "%d CID/format configurations, tables up to %s rows (BFS with merging)" % (len(items), "4 (files 2)" if quick else "6 (files 4)"),
                 "container faults": "%d faults: undecodable byte (3 encodings) / unterminated quote / record cut short by 1..6 at every row; ods and xlsx archives truncated at every %s byte, central directory removed; one byte of the tree's own .xls workbook overwritten (every %s offset, %s)" % (len(all_faults), "64th" if quick else "single", "7th" if quick else "single", "0xFF" if quick else "0x00, 0xFF, 0x80, 0x01")}
    ctx.rule = ("relational (differential) oracle: the three modes of cutplace.rows and Reader counters are compared with each other on every explored table; "
                "fault cases must end with DataFormatError in every mode; non-trivial = table with at least one rejected row, or a fault case")
    ctx.assumptions = ["rows before a container fault may or may not have been produced (decoders buffer)",
                       "a failing end-of-data verdict counts as end-of-data outcome and must be the same in yield and continue mode"]
