"""C07 — header rows are skipped; the validation limit bounds validation, not data.

Explorer (P), full product (delimited and fixed; ODS and Excel with smaller tables): header 0..3 x data rows 0..6 x limit {none, 0..rows+1} x position of a
single bad row (also inside the header) x kind of bad row x API {rows in each mode, validate,
command line --until} x {delimited, fixed}.  Oracle: closed formula of the statement.
"""
import csv
import io
import os

from mc import engine, harness, readermachine
from mc.core import Part
from mc.models import rowmodel
from mc.props import c06

MOD = "mc.props.c07"
FIELDS = ["id", "name"]
GOOD = [["1", "ab"], ["2", "c"], ["3", "xyz"], ["42", "ab"], ["0", "c"], ["7", "q"], ["8", "zz"], ["9", "ab"], ["10", "b"]]


CHECKS = [["uniq", "IsUnique", "id"], ["few names", "DistinctCount", "name <= 2"]]
ALLOWED = [("Allowed characters", "32, 48...57, 97...122")]  # blank, digits, lower-case letters: header rows hold other characters


def build_table(header, data_rows, bad_at, bad_kind, multiline_header=False, allowed=False, blank_header=False):
    # a header record may span several physical lines (quoted line breaks) and hold quotes: it is still one row
    header_row = ["h\nd", 'h"d\r\nr'] if multiline_header else (["H!", "#D~"] if allowed else ["hd", "hdr"])
    if blank_header:
        header_row = ["", ""]  # a spacer row of empty cells is a row like any other
    table = [list(header_row) for _ in range(header)] + [list(GOOD[i % len(GOOD)]) for i in range(data_rows)]
    if bad_at is not None:
        if bad_kind == "cell":
            table[bad_at - 1] = ["x", "ab"]
        elif bad_kind == "cell2":
            table[bad_at - 1] = ["5", ""]
        elif bad_kind == "short":
            table[bad_at - 1] = ["5"]
        elif bad_kind == "long":
            table[bad_at - 1] = ["5", "ab", "zz"]
        elif bad_kind == "blank":  # a row of empty cells only (spreadsheet formats)
            table[bad_at - 1] = ["", ""]
        elif bad_kind == "dup":  # repeats the key of the first data row (only with the IsUnique check declared)
            table[bad_at - 1] = [GOOD[0][0], "ab"]
        elif bad_kind == "char":  # a character outside the allowed range (only with an allowed-characters declaration)
            table[bad_at - 1] = ["5", "aB"]
    return table


def cid_file(config):
    decls = readermachine.decls_for(config)
    rows = harness.cid_rows(config["preset"], decls, config.get("checks", ()), config["header"], line_delimiter=config.get("line_delimiter", "lf") if config["preset"] in ("delimited", "fixed") else None, extra=list(config.get("extra", ())))
    path = os.path.join(readermachine.tmpdir(), "cid_%s_%d%s.csv" % (config["preset"], config["header"], ("_allowed" if config.get("extra") else "") + ("_checks" if config.get("checks") else "") + ("_" + config["line_delimiter"] if config.get("line_delimiter") else "")))
    if not os.path.exists(path):
        with open(path, "w", newline="", encoding="utf-8") as cid_stream:
            csv.writer(cid_stream).writerows(rows)
    return path


def judge_unconvertible(case, part):
    """Excel data holding one date cell that cannot be converted (a date formatted -1): the row readers work row by row, so the cell matters only
    when its row is reached - the validate-only API with a limit in front of it succeeds, and the row-reading API delivers the rows in front of it."""
    import cutplace

    errors = harness.modules()["errors"]
    header, count, bad_at, limit = case["header"], case["rows"], case["bad_at"], case["limit"]
    tag = "excel|header=%d|unconvertible-date-cell|%%s" % header
    path = os.path.join(readermachine.tmpdir(), "c07_unconvertible_%d.xlsx" % os.getpid())
    workbook = harness.new_workbook(path)
    sheet = workbook.add_worksheet()
    date_format = workbook.add_format({"num_format": "yyyy-mm-dd"})
    for y in range(header + count):
        if y == bad_at:
            sheet.write_number(y, 0, -1, date_format)
        else:
            sheet.write_string(y, 0, "r%d" % y)
    workbook.close()
    cid_rows = [["D", "Format", "Excel"], ["D", "Header", str(header)], ["F", "a"]]
    part.evaluations += 1
    part.nontrivial += 1
    part.transitions += 2
    row_number = bad_at + 1
    try:
        cutplace.validate(harness.make_cid(cid_rows), path, validate_until=limit)
        validated = "ok"
    except errors.DataFormatError:
        validated = "rejected"
    except Exception as error:
        validated = "other:" + type(error).__name__
    if limit is None or row_number <= limit:
        expected = "rejected"
    elif row_number > header + limit:
        expected = "ok"
    else:
        expected = None  # behind the limit but among the rows the reader fetches to deliver N data rows: not judged
    if expected is not None:
        part.validated += 1
        if validated != expected:
            part.fail(tag % ("validate:%s-but-expected-%s" % (validated, expected)), case, expected, validated)
    if limit is None:
        delivered, raised = [], None
        try:
            for row in cutplace.rows(harness.make_cid(cid_rows), path, on_error="yield"):
                delivered.append(row)
        except errors.DataFormatError:
            raised = "DataFormatError"
        except Exception as error:
            raised = "other:" + type(error).__name__
        part.validated += 1
        expected_rows = [["r%d" % y] for y in range(header, bad_at)]
        if delivered != expected_rows or raised != "DataFormatError":
            part.fail(tag % "rows-in-front-of-the-cell", case, [expected_rows, "DataFormatError"], [delivered, raised])


def judge(case, part):
    from cutplace import applications
    import cutplace

    if case.get("unconvertible"):
        return judge_unconvertible(case, part)
    m = harness.modules()
    errors = m["errors"]
    config = {"preset": case["preset"], "header": case["header"], "fields": FIELDS, "checks": []}
    decls = readermachine.decls_for(config)
    header, limit, bad_at, bad_kind = case["header"], case["limit"], case["bad_at"], case["bad_kind"]
    table = build_table(header, case["rows"], bad_at, bad_kind, case.get("multiline_header", False), case.get("allowed", False), case.get("blank_header", False))
    if case.get("short_by"):
        table = table[: header - case["short_by"]]  # the data end inside the header: no data rows at all
    if case.get("allowed"):
        config["extra"] = ALLOWED
    if case.get("checks"):
        config["checks"] = CHECKS
    if case.get("line_delimiter"):
        config["line_delimiter"] = case["line_delimiter"]  # fixed data without line delimiter: records follow each other directly
    rejects = bad_at is not None and bad_at > header and (limit is None or bad_at <= limit)
    if bad_kind == "dup" and bad_at - header < 2:
        rejects = False  # no earlier data row holds the key
    tag = "%s|%%s" % case["preset"]
    part.evaluations += 1
    if bad_at is not None:
        part.nontrivial += 1
    stored = rowmodel.stored_rows(decls[0]["fmt"], decls, table)  # fixed: padded cells; excel: rows as wide as the sheet
    data_rows = stored[header:]
    bad_index = None if bad_at is None else bad_at - header - 1
    # which rows are rejected, and does the distinct-count check fail at the end of the data?  Only rows within the limit are validated,
    # only validated rows reach the checks, and a row a check or field rejected is not counted.
    rejected, seen_keys, names, end_fails, end_fails_at_first_rejection = [], set(), set(), False, False
    for index, row in enumerate(data_rows):
        if limit is not None and header + index + 1 > limit:
            continue
        if (index == bad_index and bad_kind != "dup") or (config["checks"] and row[0] in seen_keys):
            if not rejected:
                end_fails_at_first_rejection = bool(config["checks"]) and len(names) > 2
            rejected.append(index)
            continue
        seen_keys.add(row[0])
        names.add(row[1])
    end_fails = bool(config["checks"]) and len(names) > 2
    assert bool(rejected) == rejects or case["rows"] > len(GOOD), (case, rejected)
    rejects = bool(rejected)
    # rows API, three modes
    for mode in c06.MODES:
        cid = readermachine.make_cid(config, decls)
        source, _ = readermachine.store(config, decls, table)
        reader_events, raised = [], None
        try:
            for item in cutplace.rows(cid, source, on_error=mode, validate_until=limit):
                reader_events.append("err" if isinstance(item, Exception) else list(item))
        except errors.DataError as error:
            raised = type(error).__name__
        except Exception as error:
            raised = "foreign:" + type(error).__name__
        part.transitions += 1
        part.validated += 1
        if rejects:
            if mode == "yield":
                expected = ["err" if i in rejected else list(r) for i, r in enumerate(data_rows)]
                expected_raised = "any" if end_fails else None
            elif mode == "continue":
                expected = [list(r) for i, r in enumerate(data_rows) if i not in rejected]
                expected_raised = "any" if end_fails else None
            else:
                expected = [list(r) for r in data_rows[:rejected[0]]]
                expected_raised = "any"
        else:
            expected = [list(r) for r in data_rows]
            expected_raised = "any" if end_fails else None
        got_raised = None if raised is None else "any"
        part.outcome("rows:%s:%s" % (mode, "rejects" if rejects else "clean"))
        if reader_events != expected or got_raised != expected_raised:
            kind = "rejection-reported-but-not-expected" if ("err" in reader_events or raised) and not rejects else (
                "rejection-expected-but-not-reported" if rejects and "err" not in reader_events and not raised else "rows-differ")
            part.fail(tag % ("rows-%s:%s" % (mode, kind)), case, {"rows": expected, "raised": expected_raised}, {"rows": reader_events, "raised": raised})
    # one Reader object iterated several times (the source rewound in between): every pass obeys the same rule
    for mode in c06.MODES:
        cid = readermachine.make_cid(config, decls)
        source, _ = readermachine.store(config, decls, table)
        reader = cutplace.Reader(cid, source, on_error=mode, validate_until=limit)
        for pass_number in (1, 2, 3):
            if not isinstance(source, str):
                source.seek(0)
            reader_events, raised = [], None
            try:
                if pass_number == 2 and not rejects:
                    reader.validate_rows()
                    reader_events = None
                else:
                    for item in reader.rows():
                        reader_events.append("err" if isinstance(item, Exception) else list(item))
            except errors.DataError as error:
                raised = type(error).__name__
            except Exception as error:
                raised = "foreign:" + type(error).__name__
            part.transitions += 1
            part.validated += 1
            if rejects:
                if mode == "yield":
                    expected = ["err" if i in rejected else list(r) for i, r in enumerate(data_rows)]
                elif mode == "continue":
                    expected = [list(r) for i, r in enumerate(data_rows) if i not in rejected]
                else:
                    expected = [list(r) for r in data_rows[:rejected[0]]]
                expected_raised = "any" if mode == "raise" else None
            else:
                expected = None if pass_number == 2 else [list(r) for r in data_rows]
                expected_raised = None
            if reader_events != expected or (None if raised is None else "any") != expected_raised:
                part.fail(tag % ("reader-pass-%d-%s:differs" % (pass_number, mode)), case, {"rows": expected, "raised": expected_raised}, {"rows": reader_events, "raised": raised})
        # the end-of-data verdict belongs to the last pass: it fails iff more than two names were counted in that pass
        try:
            reader.close()
            closed = "ok"
        except errors.DataError:
            closed = "rejected"
        expected_close = "rejected" if (end_fails_at_first_rejection if (mode == "raise" and rejects) else end_fails) else "ok"
        part.validated += 1
        if closed != expected_close:
            part.fail(tag % ("reader-close-%s:%s-but-expected-%s" % (mode, closed, expected_close)), case, expected_close, closed)
    # validate API
    cid = readermachine.make_cid(config, decls)
    source, _ = readermachine.store(config, decls, table)
    try:
        cutplace.validate(cid, source, validate_until=limit)
        validated = "ok"
    except errors.DataError:
        validated = "rejected"
    except Exception as error:
        validated = "foreign:" + type(error).__name__
    part.transitions += 1
    part.validated += 1
    fails = rejects or end_fails
    if validated != ("rejected" if fails else "ok"):
        part.fail(tag % ("validate:%s-but-expected-%s" % (validated, "rejected" if fails else "ok")), case, "rejected" if fails else "ok", validated)
    # the validate-only API stops after N data rows: what follows them is not even read, so a record cut short at the very end of the data goes unnoticed
    if limit is not None and header + limit < len(table) and decls[0]["fmt"] in ("delimited", "fixed") and not case.get("short_by"):
        source, _ = readermachine.store(config, decls, table)
        torn = harness.NamedStringIO(source.getvalue() + ('7,"torn' if decls[0]["fmt"] == "delimited" else "7"), "growing.txt")
        try:
            cutplace.validate(readermachine.make_cid(config, decls), torn, validate_until=limit)
            stopped = "ok"
        except errors.DataError:
            stopped = "rejected"
        except Exception as error:
            stopped = "foreign:" + type(error).__name__
        part.transitions += 1
        part.validated += 1
        if stopped != validated:
            part.fail(tag % ("validate-reads-behind-the-limit:%s-but-%s-without-the-torn-record" % (stopped, validated)), case, validated, stopped)
    # command line
    if case.get("cli", True):
        cid_path = cid_file(config)
        source, _ = readermachine.store(config, decls, table)
        if isinstance(source, str):
            data_path = source
        else:
            data_path = os.path.join(readermachine.tmpdir(), "cli_data_%d.txt" % os.getpid())
            with open(data_path, "w", newline="", encoding="cp1252") as data_stream:
                data_stream.write(source.getvalue())
        variants = [["--until", str(limit)]] if limit is not None else [[], ["--until", "-1"]]
        for options in variants:
            try:
                code = applications.main(["cutplace"] + options + [cid_path, data_path])
            except SystemExit as error:
                code = "exit:%s" % error.code
            except Exception as error:
                code = "foreign:" + type(error).__name__
            part.transitions += 1
            part.validated += 1
            if code != (1 if fails else 0):
                part.fail(tag % ("cli:exit-%s-but-expected-%d" % (code, 1 if fails else 0)), dict(case, options=options), 1 if fails else 0, code)


def enumerate_cases(preset, header, max_rows=6):
    cases = []
    kinds = ["cell", "cell2"] if preset in ("fixed", "ods", "excel") else ["cell", "cell2", "short", "long"]
    for rows in range(0, max_rows + 1):
        total = header + rows
        for limit in [None] + list(range(0, total + 2)):
            cases.append({"preset": preset, "header": header, "rows": rows, "limit": limit, "bad_at": None, "bad_kind": None})
            for bad_at in range(1, total + 1):
                for kind in kinds:
                    if preset == "fixed" and bad_at <= header and kind == "cell2":
                        pass
                    cases.append({"preset": preset, "header": header, "rows": rows, "limit": limit, "bad_at": bad_at, "bad_kind": kind})
    # data that end inside the header (fewer rows than the Header property says): nothing to validate, nothing to return
    for short_by in range(1, header + 1):
        for limit in [None] + list(range(0, header + 2)):
            cases.append({"preset": preset, "header": header, "rows": 0, "limit": limit, "bad_at": None, "bad_kind": None, "short_by": short_by})
    # the same product under a CID with an IsUnique and a DistinctCount check: a repeated key as the bad row, and tables whose end-of-data verdict fails
    with_checks = [dict(case, checks=True, bad_kind="dup" if case["bad_kind"] == "cell2" else case["bad_kind"]) for case in cases if case["rows"] <= 5 and case["bad_kind"] in (None, "cell", "cell2")]
    if preset in ("ods", "excel"):
        cases += with_checks
    if preset in ("ods", "excel"):
        # rows of empty cells: as header rows (spacer lines) and as the bad row; an xlsx sheet ends with its last non-empty row
        extra = [dict(case, blank_header=True) for case in cases if header and (case["rows"] > 0 or preset == "ods")]
        for case in cases:
            if case["bad_kind"] == "cell" and (preset == "ods" or case["bad_at"] < header + case["rows"]):
                extra.append(dict(case, bad_kind="blank"))
        return cases + extra
    if preset == "delimited" and header in (0, 2) and max_rows >= 6:
        # limits beyond 256 (small integers are special in CPython): a few large tables
        for limit in (255, 256, 257, 280):
            for bad_at in (limit, limit + 1, limit + 2, 300 + header):
                cases.append({"preset": preset, "header": header, "rows": 300, "limit": limit, "bad_at": bad_at, "bad_kind": "cell", "cli": bad_at != limit + 2})
    # with an allowed-characters declaration: header rows and rows behind the limit may hold any character
    cases += [dict(case, allowed=True, bad_kind="char" if case["bad_kind"] == "cell2" else case["bad_kind"]) for case in cases if case["rows"] <= 4 and case["bad_kind"] in (None, "cell", "cell2")]
    cases += with_checks
    if preset == "fixed":
        cases += [dict(case, line_delimiter="none") for case in cases if case["rows"] <= 4 and case["bad_kind"] in (None, "cell") and not case.get("allowed") and not case.get("short_by")]
    if preset == "delimited" and header:
        cases += [dict(case, multiline_header=True) for case in cases if case["rows"] <= 4 and case["bad_kind"] in (None, "cell", "short") and not case.get("allowed")]
    return cases


def work(item):
    preset, header, chunk, of = item[:4]
    part = Part()
    cases = enumerate_cases(preset, header, *item[4:])
    if preset == "excel":
        rows = item[4]
        cases = cases + [{"unconvertible": True, "header": header, "rows": count, "bad_at": bad_at, "limit": limit}
                         for count in range(1, rows + 1) for bad_at in range(header, header + count) for limit in [None] + list(range(0, header + count + 2))]
    for case in cases[chunk::of]:
        judge(case, part)
    part.sample(cases[len(cases) // 2], limit=1)
    part.state((preset, header))
    return part


def run(ctx):
    thorough = ctx.tier == "thorough"
    max_rows, max_header, parts = (10, 5, 16) if thorough else (6, 3, 4)
    items = [(preset, header, chunk, parts, max_rows) for preset in ("delimited", "fixed") for header in range(0, max_header + 1) for chunk in range(parts)]
    # spreadsheet formats: the same rule, smaller tables (every case writes files)
    sheet_rows, sheet_header = (5, 3) if thorough else (3, 2)
    items += [(preset, header, chunk, 2, sheet_rows) for preset in ("ods", "excel") for header in range(0, sheet_header + 1) for chunk in range(2)]
    total = sum(len(enumerate_cases(p, h, max_rows)) for p in ("delimited", "fixed") for h in range(max_header + 1))
    total += sum(len(enumerate_cases(p, h, sheet_rows)) for p in ("ods", "excel") for h in range(sheet_header + 1))
    ctx.bound = {"cases": total, "header": "0..%d" % max_header, "data rows": "0..%d" % max_rows, "limit": "none, 0..rows+header+1", "header rows": "plain; delimited also with quoted line breaks and quotes inside header cells", "bad row": "none or one at every position 1..rows+header (also inside the header); kinds: bad cell (2 kinds), one item short, one item long (delimited)",
                 "apis": ["cutplace.rows x 3 modes", "cutplace.validate", "applications.main --until (and --until -1 / absent for no limit)"],
                 "excel date cell that cannot be converted": "at every data row of sheets of 1..%d rows x every limit: validate succeeds iff the limit ends in front of it, rows() delivers the rows in front of it" % sheet_rows}
    ctx.rule = "full product, no sampling; non-trivial = case with a bad row; oracle: rejection reported iff position > header and (no limit or position <= limit); states = (format, header) configurations"
    ctx.assumptions = ["in fixed format a bad row is a bad cell only (a record of the wrong width is a container fault, C06/C13)"]
    ctx.pmap(MOD, "work", items, label="C07")
