"""C08 — validation outcomes do not depend on what the CID was used for before.

LTS: state = the shared Cid object (bookkeeping of its check objects) plus still-open runs;
operations = reads (3 modes), abandoned reads, reads without close, validate, writes with and
without close, the command line's CutplaceApp.validate.  Explorer (H): BFS to the fixpoint of the
canonical CID state (all histories of every length); differential oracle: every operation's
complete observation must equal the observation of the same operation on a freshly loaded CID.
"""
import hashlib
import io
import os

from mc import engine, harness, readermachine, snapshot
from mc.core import Part

MOD = "mc.props.c08"
DATA = {
    "clean": [["1", "a", "red"], ["2", "b", "blue"]],
    "dup": [["1", "a", "red"], ["1", "b", "green"], ["3", "c", "blue"]],
    "many": [["1", "a", "blue"], ["2", "b", "red"], ["3", "c", "green"], ["4", "d", "blue"]],
    "other": [["2", "x", "blue"], ["5", "y", "green"]],
    "empty": [],  # no row at all: nothing in the run itself triggers per-row work, so only what is done up front separates it from the run before
    # a value outside the choices, a character outside the allowed characters, then rows using the last declared choice and the same character again
    "bad": [["-1", "a", "red"], ["6", "a", "black"], ["7", "\xfc", "red"], ["8", "b", "blue"], ["9", "\xfc", "blue"], ["10", "", "red"], ["11", "", "green"], ["12", "ab", "red"], ["-2", "b", "red"]],  # an empty name, twice; ids outside their multi-part range at the start and at the end (the messages quote the range)
}
CIDS = {
    "delimited": [["D", "Format", "Delimited"], ["D", "Line delimiter", "LF"], ["F", "id", "", "", "", "Integer", "0...9, 10...99"], ["F", "name", "", "", "1, 2"], ["F", "kind", "", "", "", "Choice", "red, green, blue"],
                  ["D", "Allowed characters", "32...57, 58...126"], ["C", "uniq", "IsUnique", "id"], ["C", "few", "DistinctCount", "name < 3"]],
    "fixed": [["D", "Format", "Fixed"], ["D", "Line delimiter", "LF"], ["F", "id", "", "", "2", "Integer", "0...9, 10...99"], ["F", "name", "", "", "2"], ["F", "kind", "", "", "5", "Choice", "red, green, blue"],
              ["D", "Allowed characters", "32...57, 58...126"], ["C", "uniq", "IsUnique", "id"], ["C", "few", "DistinctCount", "name < 3"]],
}
# fixed data whose lines end in a lone CR, read under the default line delimiter 'any' (the reader has to look one character ahead)
CIDS["fixed_cr"] = [row for row in CIDS["fixed"] if row[1] != "Line delimiter"]
WIDTHS = [2, 2, 5]


def text_of(kind, name):
    if kind.startswith("fixed"):
        return "".join("".join(c.ljust(w) for c, w in zip(row, WIDTHS)) + ("\r" if kind == "fixed_cr" else "\n") for row in DATA[name])
    return "".join(",".join(row) + "\n" for row in DATA[name])


def data_file(kind, name):
    path = os.path.join(readermachine.tmpdir(), "c08_%s_%s.txt" % (kind, name))
    if not os.path.exists(path):
        with open(path, "w", newline="", encoding="cp1252") as stream:
            stream.write(text_of(kind, name))
    return path


def fresh_cid(kind):
    return harness.make_cid(CIDS[kind])


def _events(iterable, errors):
    out = []
    try:
        for item in iterable:
            out.append(harness.describe_error(item) if isinstance(item, Exception) else list(item))
    except errors.CutplaceError as error:
        out.append(["RAISED", harness.describe_error(error)])
    except Exception as error:
        out.append(["FOREIGN", type(error).__name__, str(error)])
    return out


def op_read(cid, kind, keep, name, mode, limit=None):
    import cutplace

    return _events(cutplace.rows(cid, harness.NamedStringIO(text_of(kind, name), "data.txt"), on_error=mode, validate_until=limit), harness.modules()["errors"])


def op_abandon(cid, kind, keep, name, count, hold):
    import cutplace

    errors = harness.modules()["errors"]
    generator = cutplace.rows(cid, harness.NamedStringIO(text_of(kind, name), "data.txt"), on_error="yield")
    out = []
    try:
        for _ in range(count):
            item = next(generator)
            out.append(harness.describe_error(item) if isinstance(item, Exception) else list(item))
    except StopIteration:
        out.append("END")
    except errors.CutplaceError as error:
        out.append(["RAISED", harness.describe_error(error)])
    if hold:
        keep.append(generator)
    else:
        try:
            generator.close()
        except errors.CutplaceError as error:
            out.append(["CLOSE-RAISED", harness.describe_error(error)])
    return out


def op_read_releasing_midway(cid, kind, keep, name):
    """A read during which, after its first item, every abandoned run held so far is finalised (as the garbage collector may do at any moment)."""
    import cutplace

    m = harness.modules()
    generator = cutplace.rows(cid, harness.NamedStringIO(text_of(kind, name), "data.txt"), on_error="yield")
    out = []
    try:
        for index, item in enumerate(generator):
            out.append(harness.describe_error(item) if isinstance(item, Exception) else list(item))
            if index == 0:
                out.append(["released", op_release(cid, kind, keep)])
    except m["errors"].CutplaceError as error:
        out.append(["RAISED", harness.describe_error(error)])
    except Exception as error:
        out.append(["FOREIGN", type(error).__name__, str(error)])
    return out


def op_hold_reader(cid, kind, keep, name):
    """Construct a Reader now, consume it later (several readers on one CID constructed up front)."""
    m = harness.modules()
    reader = m["validio"].Reader(cid, harness.NamedStringIO(text_of(kind, name), "data.txt"), on_error="yield")
    keep.append(("reader", name, reader))
    return "held"


def op_consume_held(cid, kind, keep):
    m = harness.modules()
    for index, entry in enumerate(keep):
        if isinstance(entry, tuple) and entry[0] == "reader":
            _, name, reader = keep.pop(index)
            events = _events(reader.rows(), m["errors"])
            try:
                reader.close()
                events.append("closed")
            except m["errors"].CutplaceError as error:
                events.append(["CLOSE-RAISED", harness.describe_error(error)])
            return ["consumed", name, events]
    return "nothing-held"


def op_release(cid, kind, keep):
    errors = harness.modules()["errors"]
    out = []
    for entry in [e for e in keep if isinstance(e, tuple)]:
        keep.remove(entry)  # constructed but never started readers hold nothing
    while keep:
        generator = keep.pop()
        try:
            generator.close()
        except errors.CutplaceError as error:
            out.append(["CLOSE-RAISED", type(error).__name__])
    return out


def op_noclose(cid, kind, keep, name):
    m = harness.modules()
    reader = m["validio"].Reader(cid, harness.NamedStringIO(text_of(kind, name), "data.txt"), on_error="yield")
    return _events(reader.rows(), m["errors"])


def op_read_twice(cid, kind, keep, name):
    """One Reader iterated twice (source rewound in between): each pass is a run of its own."""
    m = harness.modules()
    source = harness.NamedStringIO(text_of(kind, name), "data.txt")
    reader = m["validio"].Reader(cid, source, on_error="yield")
    out = []
    for _ in range(2):
        source.seek(0)
        events = _events(reader.rows(), m["errors"])
        # locations of the second pass continue the first pass's count: only the verdicts and rows are compared
        out.append([e if not isinstance(e, dict) else [e["type"], e["text"].split(": ", 1)[-1]] for e in events])
    try:
        reader.close()
    except m["errors"].CutplaceError as error:
        out.append(["CLOSE-RAISED", type(error).__name__])
    if out[0] != out[1]:
        out.append("FOREIGN: the second pass over the same data differs from the first")  # each pass is a run of its own: flagged whatever a fresh CID does
    return out


def op_write_with(cid, kind, keep, name):
    import cutplace

    errors = harness.modules()["errors"]
    target = io.StringIO(newline="")
    results = []
    try:
        with cutplace.Writer(cid, target) as writer:
            for row in DATA[name]:
                try:
                    writer.write_row(list(row))
                    results.append("ok")
                except errors.CutplaceError as error:
                    results.append([type(error).__name__, str(error)])
    except errors.CutplaceError as error:
        results.append(["CLOSE-RAISED", type(error).__name__, str(error)])
    except Exception as error:
        return ["FOREIGN", type(error).__name__, str(error)]
    return [results, target.getvalue()]


def op_open_close(cid, kind, keep, name, call_rows):
    """A Reader that is opened and closed without reading anything: a run over no rows."""
    m = harness.modules()
    try:
        with m["validio"].Reader(cid, harness.NamedStringIO(text_of(kind, name), "data.txt")) as reader:
            if call_rows:
                reader.rows()  # the generator is never started
        return "ok"
    except m["errors"].CutplaceError as error:
        return ["RAISED", harness.describe_error(error)]


def op_close_held(cid, kind, keep):
    """Close the oldest reader constructed up front without reading from it."""
    m = harness.modules()
    for index, entry in enumerate(keep):
        if isinstance(entry, tuple) and entry[0] == "reader":
            _, name, reader = keep.pop(index)
            try:
                reader.close()
                return ["closed-unread", "ok"]
            except m["errors"].CutplaceError as error:
                return ["closed-unread", "CLOSE-RAISED", harness.describe_error(error)]
    return "nothing-held"


def op_validate(cid, kind, keep, name, limit=None):
    import cutplace

    errors = harness.modules()["errors"]
    try:
        cutplace.validate(cid, harness.NamedStringIO(text_of(kind, name), "data.txt"), validate_until=limit)
        return "ok"
    except errors.CutplaceError as error:
        return ["RAISED", harness.describe_error(error)]
    except Exception as error:
        return ["FOREIGN", type(error).__name__]


def op_write(cid, kind, keep, name, close):
    import cutplace

    errors = harness.modules()["errors"]
    target = io.StringIO(newline="")
    results = []
    try:
        writer = cutplace.Writer(cid, target)
        for row in DATA[name]:
            try:
                writer.write_row(list(row))
                results.append("ok")
            except errors.CutplaceError as error:
                results.append([type(error).__name__, str(error)])
        written = target.getvalue()
        if close:
            try:
                writer.close()
                results.append("closed")
            except errors.CutplaceError as error:
                results.append(["CLOSE-RAISED", type(error).__name__, str(error)])
    except Exception as error:
        return ["FOREIGN", type(error).__name__, str(error)]
    return [results, written]


def op_app(cid, kind, keep, name):
    from cutplace import applications

    app = applications.CutplaceApp()
    app.cid = cid
    app.all_validations_were_ok = True
    try:
        app.validate(data_file(kind, name))
    except Exception as error:
        return ["FOREIGN", type(error).__name__]
    return app.all_validations_were_ok


OPS = {
    "read_clean": (op_read, ("clean", "raise")),
    "read_dup_raise": (op_read, ("dup", "raise")),
    "read_dup_yield": (op_read, ("dup", "yield")),
    "read_dup_continue": (op_read, ("dup", "continue")),
    "read_many_continue": (op_read, ("many", "continue")),
    "read_other": (op_read, ("other", "yield")),
    "abandon1_hold": (op_abandon, ("clean", 1, True)),
    "abandon1_close": (op_abandon, ("clean", 1, False)),
    "abandon2_dup_close": (op_abandon, ("dup", 2, False)),
    "abandon0_close": (op_abandon, ("other", 0, False)),
    "release_held": (op_release, ()),
    "hold_reader_clean": (op_hold_reader, ("clean",)),
    "hold_reader_dup": (op_hold_reader, ("dup",)),
    "consume_held_reader": (op_consume_held, ()),
    "noclose_clean": (op_noclose, ("clean",)),
    "noclose_dup": (op_noclose, ("dup",)),
    "validate_clean": (op_validate, ("clean",)),
    "validate_dup": (op_validate, ("dup",)),
    "validate_other_until0": (op_validate, ("other", 0)),
    "validate_dup_until1": (op_validate, ("dup", 1)),
    "validate_bad": (op_validate, ("bad",)),
    "read_bad_yield": (op_read, ("bad", "yield")),
    "read_other_until0": (op_read, ("other", "yield", 0)),
    "read_dup_releasing_midway": (op_read_releasing_midway, ("dup",)),
    "read_dup_until1": (op_read, ("dup", "continue", 1)),
    "read_bad_raise": (op_read, ("bad", "raise")),
    "open_close_reader": (op_open_close, ("other", False)),
    "open_rows_close_reader": (op_open_close, ("clean", True)),
    "close_held_reader": (op_close_held, ()),
    "write_bad_close": (op_write, ("bad", True)),
    "write_clean": (op_write, ("clean", False)),
    "write_clean_close": (op_write, ("clean", True)),
    "write_dup_close": (op_write, ("dup", True)),
    "write_many_close": (op_write, ("many", True)),
    "write_other": (op_write, ("other", False)),
    "read_twice_dup": (op_read_twice, ("dup",)),
    "write_with_dup": (op_write_with, ("dup",)),
    "app_clean": (op_app, ("clean",)),
    "app_dup": (op_app, ("dup",)),
    "read_empty": (op_read, ("empty", "raise")),
    "validate_empty": (op_validate, ("empty",)),
    "write_empty_close": (op_write, ("empty", True)),
    "app_empty": (op_app, ("empty",)),
}
_FRESH = {}


def apply_op(cid, kind, keep, name):
    function, arguments = OPS[name]
    return function(cid, kind, keep, *arguments)


def fresh_observation(kind, name):
    key = (kind, name)
    if key not in _FRESH:
        keep = []
        _FRESH[key] = apply_op(fresh_cid(kind), kind, keep, name)
        op_release(None, kind, keep)
    return _FRESH[key]


def judge(case, part):
    """case: {"format": kind, "history": [op names]} — the last operation is the one observed."""
    kind = case["format"]
    history = list(case["history"])
    cid = fresh_cid(kind)
    keep = []
    observed = None
    part.evaluations += 1
    try:
        for index, name in enumerate(history):
            observed = apply_op(cid, kind, keep, name)
            part.transitions += 1
        if history:
            last = history[-1]
            if last == "consume_held_reader" and isinstance(observed, list):
                # expected: the same reader constructed and consumed at once on a fresh CID
                key = (kind, "consume:" + observed[1])
                if key not in _FRESH:
                    fresh_keep = []
                    fresh = fresh_cid(kind)
                    op_hold_reader(fresh, kind, fresh_keep, observed[1])
                    _FRESH[key] = op_consume_held(fresh, kind, fresh_keep)
                expected = _FRESH[key]
            elif last == "close_held_reader" and isinstance(observed, list):
                key = (kind, "close-unread")
                if key not in _FRESH:
                    fresh_keep = []
                    fresh = fresh_cid(kind)
                    op_hold_reader(fresh, kind, fresh_keep, "clean")
                    _FRESH[key] = op_close_held(fresh, kind, fresh_keep)
                expected = _FRESH[key]
            else:
                expected = fresh_observation(kind, last)
            part.validated += 1
            if len(history) > 1:
                part.nontrivial += 1
            if "FOREIGN" in repr(observed):
                # an ending that is no cutplace error is wrong even if a fresh CID ends the same way
                what = "second-pass-differs-from-the-first" if "second pass over the same data" in repr(observed) else "run-ended-with-a-foreign-error"
                part.fail("%s|%s|%s" % (kind, last, what), case, "rows, rejections or a cutplace error; equal passes", observed)
            part.outcome("%s:%s" % (last, "same" if observed == expected else "differs"))
            if observed != expected:
                part.fail("%s|%s|outcome-differs-from-fresh-cid" % (kind, last), case, expected, observed)
        held_readers = tuple(entry[1] for entry in keep if isinstance(entry, tuple))
        # the definition itself (field formats, data format) belongs to the state: a run that changes it must not be merged with one that does not
        definition = hashlib.sha1(repr(snapshot.snap([cid.field_formats, cid.data_format])).encode("utf-8")).hexdigest()
        state = (readermachine.check_snapshot(cid), len(keep) > len(held_readers), held_readers, definition)
    finally:
        op_release(cid, kind, keep)
    return state


def explore(item):
    kind, depth, merge = item
    part = Part()

    def run(history):
        return judge({"format": kind, "history": list(history)}, part)

    def extend(history, op):
        # at most two readers are held at any time
        if op.startswith("hold_reader"):
            held = 0
            for name in history:
                if name.startswith("hold_reader"):
                    held += 1
                elif name in ("consume_held_reader", "close_held_reader") and held:
                    held -= 1
            return held < 2
        return True

    result = engine.bfs(run, list(OPS), part, max_depth=depth, merge=merge, max_states=2000, extend=extend)
    part.note("%s: %s after depth %d, %d states" % (kind, "fixpoint" if result["fixpoint"] else "depth bound", result["depth_completed"], result["states"]))
    longest = max(result["representatives"].values(), key=len)
    part.sample({"format": kind, "states": result["states"], "transitions": result["transitions"], "fixpoint": result["fixpoint"], "longest minimal history": list(longest)}, limit=1)
    if merge and not result["fixpoint"]:
        part.note("fixpoint NOT reached")
    return part


def run(ctx):
    quick = ctx.tier == "quick"
    items = [(kind, None if not quick else 5, True) for kind in CIDS]
    items += [(kind, 2 if quick else 3, False) for kind in CIDS]
    ctx.pmap(MOD, "explore", items, label="C08")
    fix = [k for k in ctx.total.notes if "fixpoint" in k or "depth bound" in k]
    ctx.exhaustive = not any("NOT reached" in k for k in ctx.total.notes)
    ctx.bound = {"operations": list(OPS), "search": fix, "cross-check": "plain enumeration of all histories up to depth %d without merging" % (2 if quick else 3)}
    ctx.rule = ("BFS over operation histories on one shared CID; every operation is applied in every distinct canonical CID state (structural snapshot of the check "
                "objects + 'a run is still held open'); the search runs to the fixpoint, i.e. covers histories of every length; each edge's observation is compared "
                "with the same operation on a freshly loaded CID; non-trivial = history of at least two operations")
    ctx.assumptions = ["abandoned generators that are held are closed by the harness at the end of the history (or by the release operation); CPython reference counting makes finalisation deterministic"]
