"""C09 — CIDs are accepted iff structurally sound; rejections name the offending row.

Explorer (P): generated valid CIDs (all formats, 1..6 fields of all types, 0..3 checks, with and
without comment rows) x (a) meaning-preserving rewrites (singly and in pairs), which must stay
accepted with an identical snapshot, and (b) exactly one structural defect from the catalogue at
every applicable row, which must be rejected with an InterfaceError naming that row.
"""
import itertools
import re

from mc import engine, harness
from mc.core import Part
from mc.models import cidgrammar

MOD = "mc.props.c09"


def signature(cid):
    data_format = cid.data_format
    settings = tuple(sorted((k, repr(v)) for k, v in data_format.__dict__.items() if k.startswith("_") and not k.startswith("_VALID") and k not in ("_allowed_characters", "_is_valid")))
    fields = tuple((type(f).__name__, f.field_name, f.is_allowed_to_be_empty, str(f.length), f.rule, f.example) for f in cid.field_formats)
    checks = tuple((name, type(cid.check_map[name]).__name__, cid.check_map[name].rule) for name in cid.check_names)
    return (settings, tuple(cid.field_names), fields, checks)


def load(rows):
    m = harness.modules()
    try:
        return "accepted", harness.make_cid(rows), None
    except m["errors"].InterfaceError as error:
        return "refused", None, str(error)
    except Exception as error:
        return "raised-" + type(error).__name__, None, repr(error)


def judge(case, part):
    """case: {"rows": [...], "expect": "same-as" | "refuse", "reference": rows | None, "row": n | None, "what": name}"""
    part.evaluations += 1
    part.transitions += 1
    part.validated += 1
    outcome, cid, detail = load(case["rows"])
    part.outcome(outcome)
    what = case["what"].split("@")[0].split(":")[0]
    # the same contents loaded once more in this process: verdict and definition are a function of the contents
    again, cid_again, detail_again = load(case["rows"])
    part.transitions += 1
    if again != outcome or (cid is not None and signature(cid) != signature(cid_again)):
        part.fail("loaded-again|%s|%s-then-%s" % (what, outcome, again), case, [outcome, detail], [again, detail_again])
        return
    if case["expect"] == "accept":
        if outcome != "accepted":
            part.fail("valid-cid|%s|%s" % (what, outcome), case, "accepted", detail)
            return
        part.state(signature(cid))
        if case.get("reference") is not None:
            ref_outcome, reference, _ = load(case["reference"])
            part.transitions += 1
            if ref_outcome == "accepted" and signature(reference) != signature(cid):
                part.fail("rewrite|%s|definition-changed" % what, case, signature(reference), signature(cid))
        if case.get("fields") is not None and list(cid.field_names) != case["fields"]:
            part.fail("valid-cid|%s|field-order" % what, case, case["fields"], list(cid.field_names))
        return
    part.nontrivial += 1
    if outcome == "accepted":
        part.fail("defect|%s|accepted" % what, case, "InterfaceError at row %s" % case.get("row"), "accepted")
    elif outcome != "refused":
        part.fail("defect|%s|%s" % (what, outcome), case, "InterfaceError at row %s" % case.get("row"), detail)
    elif case.get("row") is not None:
        rows_named = [int(n) for n in re.findall(r"\(R(\d+)C\d+\)", detail)]
        if case["row"] not in rows_named[:1]:
            part.fail("defect|%s|rejected-at-wrong-row" % what, case, "R%d" % case["row"], detail)


def work(item):
    bases, pairs = item
    part = Part()
    for base in bases:
        rows = base["rows"]
        judge({"rows": rows, "expect": "accept", "what": "base", "fields": base["fields"]}, part)
        rewritten = list(cidgrammar.rewrites(rows))
        for name, new_rows in rewritten:
            judge({"rows": new_rows, "expect": "accept", "reference": rows, "what": name, "fields": base["fields"]}, part)
        if pairs:
            step = max(1, len(rewritten) // 12)
            chosen = rewritten[::step]
            for (name_a, rows_a), (name_b, _) in itertools.product(chosen, chosen):
                # apply the second rewrite on top of the first one
                for name_c, rows_c in cidgrammar.rewrites(rows_a):
                    if name_c == name_b:
                        judge({"rows": rows_c, "expect": "accept", "reference": rows, "what": name_a.split("@")[0] + "+" + name_b.split("@")[0], "fields": base["fields"]}, part)
                        break
        for name, new_rows, fields in cidgrammar.extra_fields(base):
            judge({"rows": new_rows, "expect": "accept", "what": name, "fields": fields}, part)
        for name, new_rows, row in cidgrammar.defects(base):
            judge({"rows": new_rows, "expect": "refuse", "row": row, "what": name}, part)
            # the same defect with the example of that field row removed: a defect must not be reported merely because it
            # also makes the example unacceptable (that would mask a missing structural check)
            if row is not None and "example" not in name and "no-example" not in name:
                target = new_rows[row - 1]
                if len(target) > 2 and target and target[0].strip().lower() == "f" and target[2] != "":
                    without = [list(r) for r in new_rows]
                    without[row - 1][2] = ""
                    judge({"rows": without, "expect": "refuse", "row": row, "what": name + ":no-example"}, part)
    part.sample({"base": bases[0]["rows"], "one rewrite": rewritten[3][0], "defects": [d[0] for d in itertools.islice(cidgrammar.defects(bases[0]), 5)]}, limit=1)
    return part


def run(ctx):
    quick = ctx.tier == "quick"
    bases = cidgrammar.base_cids(160 if quick else 800)
    names = sorted({d[0] for base in bases[:60] for d in cidgrammar.defects(base)})
    ctx.bound = {"base CIDs": len(bases), "defect catalogue": names, "rewrites": "comment rows at every position (4 kinds), trailing cells, marker / property / format name case, blanks around marker and field name, "
                 "underscores in property names, permuted property rows, property rows after fields; singly" + (" and in pairs" if not quick else " (pairs for the first 40 bases)")}
    ctx.rule = ("CIDs are rendered from structures; rewrites must load to the same (format settings, fields, checks) snapshot as their base; every defect is applied at every applicable row and must raise an "
                "InterfaceError whose first location names that row; non-trivial = defect case; states = distinct loaded definitions")
    ctx.assumptions = ["for the two completeness defects (no format, no fields) only the exception type is judged",
                       "grey zones not enumerated: padded property names / values / check types, case-changed type names, trailing comma in IsUnique rules, empty DateTime layout"]
    chunks = engine.chunks(bases, 2)
    items = [(chunk, (not quick) or index < 20) for index, chunk in enumerate(chunks)]
    ctx.pmap(MOD, "work", items, label="C09")
