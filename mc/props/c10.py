"""C10 — CID and data problems surface as cutplace errors, never as internal failures.

Deviation-bounded fault injection: valid base CIDs (one per format, all field types, both checks)
with matching data; one hostile value at a time in every cell of every CID row and of every data
row (thorough: pairs within a row and (CID cell, data cell) pairs); containers truncated and
bit-flipped at every offset.  Every case is run through Cid.read, cutplace.rows (3 modes),
cutplace.validate, cutplace.Writer and applications.main.  Oracle: only InterfaceError / DataError
may escape, and main never returns 4.
"""
import csv
import io
import itertools
import os

from mc import engine, harness, readermachine
from mc.core import Part
from mc.models import odf

MOD = "mc.props.c10"
HOSTILE = [
    '"', "'", '"abc', "(", ")", "[", "\\", "...", "…", "1...", "-", "--1", "0x", "1_", "1e999", "9" * 40, "-0", "0", "-1", "2**31", "NaN", "sNaN", "Infinity", "-Infinity",
    "1.5", "ä", "€", "a\x00b", "\t", "a\rb", "a\nb", " ", "", "x" * 300, "%", "%Q", "{", "*", "?", "[a-", "(?P<", "lambda", "count", "__class__", "is_valid", "format", "none",
    "0x110000", 'u"a"', "for", "None", "1,2", "a,b", ";", "'a' 'b'", '"""', "\\x", "DD.DD", "1...2...3", "5...1",
    "  'a'\n 'b'", "\t'a'\n  'b'", "rot13", "base64", "hex", "utf-16", "utf-32", "zlib", "idna", "punycode", "undefined", "utf-8-sig", "unicode_escape",
    "...5,7...", "...5, 7...", "1...,...9", "It's", "a.b 'c",
    "\\\nkind < 3", "kind\\\n < 3", "id,\\\nname", "\\\n5", "1e30", "9" * 23,
    ",", ",,", '"\\x"', "'\\'", '"\\u12"', '"\\N{x}"', '"\\"', "...,", ",1", "1,", "a,", "- ,", "0x1,0x", "%%", "\\", "[", "]]", "(?i", "a**", "x{2,1}",
]
# small numbers (a sheet right behind the last one, a header longer than the data) and digits that are no decimal digits
HOSTILE += ["2", "3", "4", "\xb2", "\u2460", "\xb2\xb3", "\u0663", "1\xb2"]
# regular expressions the compiler gives up on with something other than re.error
HOSTILE += ["a{99999999999}", "a{1,4294967296}", "(" * 2000 + "a" + ")" * 2000]
# names of attributes and methods of the objects a CID is loaded into
HOSTILE += ["location", "_location", "Location", "set_property", "validate", "is valid", "allowed_characters", "__dict__", "_format", "encoding_", "sheet_", "cid", "data_format", "name", "rule", "field_name"]
# valid values in another letter case (the documentation itself writes 'Minimal'); what is consumed later must cope with them
HOSTILE += ["Minimal", "ALL", "MiNiMaL", "True", "FALSE", "Any", "CrLf", "UTF-8", "Latin-1", "DELIMITED", "Fixed", "Integer", "TEXT", "isunique", "X"]
# check rules that reach for Python's builtins
HOSTILE += ["kind < 5 and exit()", "kind < 5 and quit(3)", "kind < len(__import__('sys').argv)", "kind < 5 and print('x')", "kind < abs(-3)", "kind < int('3')"]
# an integer limit of more digits than Python converts to decimal text (4300 by default)
HOSTILE += ["0...0x" + "f" * 4000, "-0x" + "f" * 4000 + "...0"]
# a sound first token followed by something the tokenizer or the parser rejects right there
HOSTILE += ["%s %s" % (head, tail) for head in ("Text", "5", '"a"') for tail in ("'abc", '"abc', "0b2", "\\", "1_", "0x", "$", "?", "(", "...")]
# values that are too long for a fixed field only by the blanks around them
HOSTILE += ["1" + " " * 12, " " * 12 + "a", " " * 30, "K" + " " * 3]
FIELDS = {
    "delimited": [["id", "12", "", "1...5", "Integer", "0...99999"], ["name", "Bob", "X", "...10", "Text", ""], ["kind", "a", "", "", "Choice", '"a","b"'],
                  ["born", "2000-01-31", "X", "10", "DateTime", "YYYY-MM-DD"], ["amount", "1.50", "", "", "Decimal", "0...99.99"], ["code", "abc", "", "", "Pattern", "a*"],
                  ["tag", "ab", "", "2", "RegEx", "[a-z]+"], ["const", "K", "", "1", "Constant", '"K"']],
}
FIELDS["excel"] = FIELDS["ods"] = FIELDS["delimited"]
FIELDS["fixed"] = [[f[0], f[1], f[2], w, f[4], f[5]] for f, w in zip(FIELDS["delimited"], ["5", "10", "1", "10", "5", "3", "2", "1"])]
CHECKS = [["id unique", "IsUnique", "id"], ["kinds", "DistinctCount", "kind < 3"]]
DATA = [["1", "Bob", "a", "2000-01-31", "1.50", "abc", "ab", "K"], ["2", "", "b", "", "99.99", "a", "zz", "K"], ["30", "Alice", "a", "1999-12-31", "0", "axx", "qr", "K"]]
PROPS = {"delimited": [["Header", "0"], ["Encoding", "utf-8"], ["Line delimiter", "LF"], ["Item delimiter", ","], ["Quote character", '"'], ["Allowed characters", "32..."],
                       ["Quoting", "minimal"], ["Escape character", '"'], ["Skip initial space", "false"], ["Decimal separator", "."], ["Thousands separator", ""]],
         "fixed": [["Encoding", "utf-8"], ["Line delimiter", "LF"], ["Allowed characters", "32..."], ["Decimal separator", "."], ["Thousands separator", ""]],
         "excel": [["Header", "0"], ["Sheet", "1"]], "ods": [["Header", "0"], ["Sheet", "1"]]}
WIDTHS = [5, 10, 1, 10, 5, 3, 2, 1]
ALLOWED = ("InterfaceError", "DataError", "DataFormatError", "FieldValueError", "CheckError", "RangeValueError")


def base_rows(fmt):
    rows = [["D", "Format", fmt]] + [["D"] + p for p in PROPS[fmt]]
    rows += [["F"] + f for f in FIELDS[fmt]]
    rows += [["C"] + c for c in CHECKS]
    return rows


def data_source(fmt, table, name="data"):
    """-> (source or None if the producer cannot store the table, is_path)"""
    if fmt == "delimited":
        stream = io.StringIO()
        csv.writer(stream, lineterminator="\n").writerows(table)
        return harness.NamedStringIO(stream.getvalue(), name + ".csv")
    if fmt == "fixed":
        if any(len(c) > w or "\n" in c or "\r" in c for row in table for c, w in zip(row, WIDTHS)) or any(len(row) != len(WIDTHS) for row in table):
            return None
        return harness.NamedStringIO("".join("".join(c.ljust(w) for c, w in zip(row, WIDTHS)) + "\n" for row in table), name + ".txt")
    illegal = any(ord(ch) < 32 and ch not in "\t\n" or 0xD800 <= ord(ch) < 0xE000 for row in table for c in row if isinstance(c, str) for ch in c)
    if fmt == "ods" and any(not isinstance(c, str) for row in table for c in row):
        return None
    if illegal:
        return None
    if fmt == "ods":
        path = os.path.join(readermachine.tmpdir(), "%s_%d.ods" % (name, os.getpid()))
        odf.write_ods(path, [table], {})
        return path
    import xlsxwriter

    path = os.path.join(readermachine.tmpdir(), "%s_%d.xlsx" % (name, os.getpid()))
    workbook = harness.new_workbook(path)
    sheet = workbook.add_worksheet()
    raw_values = []
    for y, row in enumerate(table):
        for x, cell in enumerate(row):
            if isinstance(cell, (list, tuple)):
                # a natively typed cell: ["native", kind, value]
                _, kind, value = cell
                if kind in ("date", "time", "duration"):
                    sheet.write_number(y, x, value, workbook.add_format({"num_format": {"date": "yyyy-mm-dd", "time": "hh:mm:ss", "duration": "[h]:mm:ss"}[kind]}))
                elif kind == "number":
                    sheet.write_number(y, x, value)
                elif kind == "bool":
                    sheet.write_boolean(y, x, value)
                elif kind == "error":
                    sheet.write_formula(y, x, "=1/0" if value == "#DIV/0!" else "=NA()", None, value)
                elif kind in ("raw-date", "raw-number"):
                    # a number cell whose stored text no spreadsheet application writes (NaN, Infinity, 1e400): put in place once the workbook is complete
                    sheet.write_number(y, x, 4242.5, workbook.add_format({"num_format": "yyyy-mm-dd"}) if kind == "raw-date" else None)
                    raw_values.append(value)
                else:
                    raise ValueError(kind)
            elif cell != "":
                sheet.write_string(y, x, cell)
    workbook.close()
    if raw_values:
        import zipfile

        patched = io.BytesIO()
        with zipfile.ZipFile(path) as archive, zipfile.ZipFile(patched, "w", zipfile.ZIP_DEFLATED) as target:
            for item in archive.infolist():
                content = archive.read(item.filename)
                if item.filename == "xl/worksheets/sheet1.xml":
                    for value in raw_values:
                        assert b"<v>4242.5</v>" in content
                        content = content.replace(b"<v>4242.5</v>", b"<v>" + value.encode("utf-8") + b"</v>", 1)
                target.writestr(item, content)
        with open(path, "wb") as stream:
            stream.write(patched.getvalue())
    return path


# natively typed Excel cells: date / time formatted numbers outside the range of dates, extreme numbers, booleans, error values
NATIVE = [["native", "date", v] for v in (-1, -0.5, 0, 0.25, 1, 1.5, 59, 60, 60.5, 61, 2958465, 2958466, 1e15)] + \
         [["native", "time", v] for v in (-0.25, 0.999999, 1.25, 60.75)] + [["native", "duration", v] for v in (1.5, 59.9, 100.25)] + \
         [["native", "number", v] for v in (1e308, -1e308, 5e-324, 2.0**63, 0.1)] + [["native", "bool", True], ["native", "bool", False], ["native", "error", "#DIV/0!"], ["native", "error", "#N/A"]]
NATIVE += [["native", kind, v] for kind in ("raw-date", "raw-number") for v in ("NaN", "Infinity", "-Infinity", "1e400", "-1e400", "1e-400", "0x10", "1_0", "１２")]
# names with a no-break space next to them (Python's tokenizer takes it for part of the name)
HOSTILE += ["\xa0id", "id,\xa0name", "kind\xa0< 3", "id\xa0"]


def classify(error, errors):
    if isinstance(error, (errors.InterfaceError, errors.DataError)):
        return None
    return type(error).__module__.replace("builtins", "").strip(".") + ("." if type(error).__module__ != "builtins" else "") + type(error).__name__


OUTCOMES = []


def attempt(label, function, errors, leaks):
    try:
        function()
        OUTCOMES.append((label, "ok"))
    except errors.CutplaceError as error:
        OUTCOMES.append((label, type(error).__name__))
        if not isinstance(error, (errors.InterfaceError, errors.DataError)):
            leaks.append((label, "CutplaceError"))
    except Exception as error:
        leaks.append((label, classify(error, errors)))
    except SystemExit:
        leaks.append((label, "SystemExit"))


def exercise(fmt, cid_rows, table, part, with_main=True, data_path=None):
    """Run one (CID rows, data table) combination through every entry point. -> list of (where, exception type)"""
    import cutplace
    from cutplace import applications

    m = harness.modules()
    errors = m["errors"]
    leaks = []
    holder = {}
    del OUTCOMES[:]

    def load():
        holder["cid"] = harness.make_cid(cid_rows)

    attempt("Cid.read", load, errors, leaks)
    part.transitions += 1
    cid = holder.get("cid")
    if cid is not None and fmt == cid.data_format.format:
        def source():
            return data_path if data_path is not None else data_source(fmt, table)

        if source() is not None:
            for mode in ("raise", "yield", "continue"):
                attempt("rows:" + mode, lambda mode=mode: list(cutplace.rows(cid, source(), on_error=mode)), errors, leaks)
            attempt("validate", lambda: cutplace.validate(cid, source()), errors, leaks)
            part.transitions += 4
        if fmt in ("delimited", "fixed") and data_path is None:
            def write():
                writer = cutplace.Writer(cid, io.StringIO(newline=""))
                for row in table:
                    try:
                        writer.write_row(list(row))
                    except errors.CutplaceError:
                        pass
                writer.close()

            attempt("Writer", write, errors, leaks)
            part.transitions += 1
    if with_main:
        cid_path = os.path.join(readermachine.tmpdir(), "cid_%d.csv" % os.getpid())
        try:
            with open(cid_path, "w", newline="", encoding="utf-8") as stream:
                csv.writer(stream).writerows(cid_rows)
            writable = True
        except (UnicodeEncodeError, csv.Error):
            writable = False
        if writable:
            path = data_path
            if path is None:
                made = data_source(fmt, table, "maindata")
                if isinstance(made, str):
                    path = made
                elif made is not None:
                    path = os.path.join(readermachine.tmpdir(), "maindata_%d.txt" % os.getpid())
                    with open(path, "w", newline="", encoding="utf-8") as stream:
                        stream.write(made.getvalue())
            if path is not None:
                try:
                    code = applications.main(["cutplace", cid_path, path])
                except SystemExit as error:
                    code = "SystemExit:%s" % error.code
                except Exception as error:
                    code = "raised:" + type(error).__name__
                part.transitions += 1
                OUTCOMES.append(("main", code))
                if code not in (0, 1, 3):
                    leaks.append(("main", "exit-%s" % code))
    # the vector of outcomes over all entry points is the observable state reached by this case
    part.state((fmt, tuple(OUTCOMES)))
    return leaks


def where_name(row, column):
    kind = row[0]
    columns = {"D": ["marker", "name", "value"], "F": ["marker", "name", "example", "empty", "length", "type", "rule"], "C": ["marker", "description", "type", "rule"]}[kind]
    detail = ""
    if kind == "D" and column == 2:
        detail = ":" + row[1].lower()
    if kind == "F" and column in (2, 4, 6):
        detail = ":" + row[5]
    if kind == "C" and column == 3:
        detail = ":" + row[2]
    return "%s.%s%s" % (kind, columns[column] if column < len(columns) else "extra", detail)


ODS_ATTRIBUTE_VALUES = ["0", "-1", "x", "", "1e3", "1.5", " 2", "99999999999999999999", "00", "+1", "\xb2"]


def ods_attribute_case(case, part):
    """ODS data in which one repeat-count attribute (cells or blanks) holds a hostile value: every ending but rows or a cutplace error is a leak.
    case: {"ods_attribute": "columns" | "blanks", "value": text}"""
    table = [list(row) for row in DATA]
    table[0][1] = "Bo  b"
    content = odf.content_xml([table], {"all_spaces_as_s": True, "explicit_c": True}).decode("utf-8")
    if case["ods_attribute"] == "columns":
        content = content.replace("<table:table-cell>", '<table:table-cell table:number-columns-repeated="%s">' % case["value"], 1)
    else:
        content = content.replace('text:c="2"', 'text:c="%s"' % case["value"], 1)
    path = os.path.join(readermachine.tmpdir(), "attribute_%d.ods" % os.getpid())
    odf.write_ods(path, [table], {}, raw_content=content.encode("utf-8"))
    part.evaluations += 1
    part.nontrivial += 1
    leaks = exercise("ods", base_rows("ods"), table, part, data_path=path)
    part.validated += 1
    part.outcome("leak" if leaks else "clean")
    for where, exception in leaks:
        part.fail("ods|data:attribute:%s|%s|%s|%r" % (case["ods_attribute"], where.split(":")[0], exception, case["value"]), case, "success, InterfaceError or DataError", [where, exception])


def judge(case, part):
    """case: {"format", "cid": [[row, column, value], ...], "data": [[row, column, value], ...]} (injected hostile cells)"""
    if "ods_attribute" in case:
        return ods_attribute_case(case, part)
    if "target" in case:  # replay of a container or stream case
        return container_case(case, part)
    if "ending" in case:
        return stream_case(case, part)
    fmt = case["format"]
    cid_rows = [list(r) for r in base_rows(fmt)]
    table = [list(r) for r in DATA]
    places = []
    values = []
    for row, column, value in case.get("cid", []):
        places.append("cid:" + where_name(base_rows(fmt)[row], column))
        values.append(short(value))
        cid_rows[row][column] = value
    for row, column, value in case.get("data", []):
        places.append("data:" + FIELDS[fmt][column][4])
        values.append(short(value))
        table[row][column] = value
    part.evaluations += 1
    part.nontrivial += 1
    leaks = exercise(fmt, cid_rows, table, part, with_main=case.get("main", True))
    part.validated += 1
    part.outcome("leak" if leaks else "clean")
    for where, exception in leaks:
        part.fail("%s|%s|%s|%s|%s" % (fmt, "+".join(places), where.split(":")[0], exception, "+".join(values)), case, "success, InterfaceError or DataError", [where, exception])


def short(value):
    if isinstance(value, (list, tuple)):
        return "%s:%r" % (value[1], value[2])
    text = repr(value)
    return text if len(text) <= 14 else text[:13] + "…"


def cid_cells(fmt):
    rows = base_rows(fmt)
    return [(r, c) for r, row in enumerate(rows) for c in range(len(row))]


def work(item):
    part = Part()
    for case in item:
        judge(case, part)
    part.sample(item[len(item) // 2], limit=1)
    return part


# ---- container corruption ----------------------------------------------------------------------
def container_case(case, part):
    """case: {"format", "target": "data"|"cid", "kind": "truncate"|"flip", "at": offset, "bit": 0|7}"""
    import cutplace
    from cutplace import applications

    m = harness.modules()
    errors = m["errors"]
    fmt = case["format"]
    if case["target"] == "xls":
        # the tree's own binary Excel workbook with one bit flipped (no independent .xls producer exists here)
        content = readermachine.xls_material()
        if content is None or case["at"] >= len(content):
            part.note("no .xls material in the tree, or offset beyond its size (not judged)")
            return
        part.evaluations += 1
        part.nontrivial += 1
        at = case["at"]
        path = os.path.join(readermachine.tmpdir(), "corrupt.xls")
        with open(path, "wb") as stream:
            stream.write(content[:at] + bytes([content[at] ^ (1 << case["bit"])]) + content[at + 1:])
        rows = [["D", "Format", "Excel"], ["D", "Header", "1"]] + [["F", name] for name in readermachine.XLS_FIELDS]
        with readermachine.quiet_stdout():
            if not readermachine.xls_terminates(path):
                leaks = [("rows", "does-not-terminate")]
            else:
                leaks = exercise("excel", rows, None, part, with_main=True, data_path=path)
        part.validated += 1
        part.outcome("leak" if leaks else "clean")
        for where, exception in leaks:
            part.fail("excel|container:data:xls:flip:%s|%s|%s" % (readermachine.xls_region(content, at), where.split(":")[0], exception), case, "success, InterfaceError or DataError", [where, exception])
        return
    part.evaluations += 1
    part.nontrivial += 1
    if case["target"] == "data":
        source = data_source(fmt, DATA, "pristine")
        content = open(source, "rb").read() if isinstance(source, str) else source.getvalue().encode("utf-8")
        suffix = {"delimited": ".csv", "fixed": ".txt", "ods": ".ods", "excel": ".xlsx"}[fmt]
    else:
        content = cid_container(case["cid_storage"], fmt)
        suffix = {"csv": ".csv", "ods": ".ods", "xlsx": ".xlsx"}[case["cid_storage"]]
    if case["at"] >= len(content):
        part.note("offsets beyond the size of a regenerated container (archive sizes vary slightly between writes)")
        return
    if case["kind"] == "truncate":
        content = content[: case["at"]]
    else:
        at = case["at"]
        content = content[:at] + bytes([content[at] ^ (1 << case["bit"])]) + content[at + 1:]
    path = os.path.join(readermachine.tmpdir(), "corrupt_%d%s" % (os.getpid(), suffix))
    with open(path, "wb") as stream:
        stream.write(content)
    leaks = []
    if case["target"] == "data":
        leaks = exercise(fmt, base_rows(fmt), DATA, part, with_main=True, data_path=path)
    else:
        attempt("Cid(path)", lambda: cutplace.Cid(path), errors, leaks)
        part.transitions += 1
        good = data_source(fmt, DATA, "gooddata")
        if not isinstance(good, str):
            good_path = os.path.join(readermachine.tmpdir(), "gooddata_%d.txt" % os.getpid())
            with open(good_path, "w", newline="", encoding="utf-8") as stream:
                stream.write(good.getvalue())
            good = good_path
        try:
            code = applications.main(["cutplace", path, good])
        except SystemExit as error:
            code = "SystemExit:%s" % error.code
        except Exception as error:
            code = "raised:" + type(error).__name__
        part.transitions += 1
        if code not in (0, 1, 3):
            leaks.append(("main", "exit-%s" % code))
    part.validated += 1
    part.outcome("leak" if leaks else "clean")
    for where, exception in leaks:
        storage = case.get("cid_storage", fmt)
        part.fail("%s|container:%s:%s:%s|%s|%s" % (fmt, case["target"], storage, case["kind"], where.split(":")[0], exception), case, "success, InterfaceError or DataError", [where, exception])


def stream_case(case, part):
    """Text data handed over as a stream that preserves line endings, in every line-ending style, with the one-character
    flag field first or last, and with one character deleted / replaced at an offset.
    case: {"format", "flag_first", "ending", "mutation": None | ["delete", at] | ["replace", at, character]}"""
    import cutplace

    m = harness.modules()
    errors = m["errors"]
    fmt = case["format"]
    order = [7, 0, 1, 2, 3, 4, 5, 6] if case["flag_first"] else list(range(8))
    rows = [["D", "Format", fmt]] + [["D"] + p for p in PROPS[fmt] if p[0] != "Line delimiter"]
    rows += [["F"] + FIELDS[fmt][i] for i in order] + [["C"] + c for c in CHECKS]
    widths = [WIDTHS[i] for i in order]
    ending = case["ending"]
    lines = []
    for number, row in enumerate(DATA[: case.get("rows", 3)]):
        cells = [row[i] for i in order]
        if fmt == "fixed":
            line = "".join(c.ljust(w) for c, w in zip(cells, widths))
        elif case.get("quoted"):
            line = ",".join('"%s"' % c for c in cells)
        else:
            line = ",".join(cells)
        lines.append(line + (["\n", "\r", "\r\n"][number % 3] if ending == "mixed" else ending))
    text = "".join(lines)
    mutation = case.get("mutation")
    if mutation:
        at = mutation[1]
        if at >= len(text):
            return
        if mutation[0] == "insert":
            text = text[:at] + mutation[2] + text[at:]
        else:
            text = text[:at] + (mutation[2] if mutation[0] == "replace" else "") + text[at + 1:]
    part.evaluations += 1
    part.nontrivial += 1
    leaks = []
    del OUTCOMES[:]
    cid = harness.make_cid(rows)

    def stream(content):
        if "unnamed" not in case:
            return harness.NamedStringIO(content, "stream.txt")
        # a stream whose name is no text: temporary files carry None, streams opened on a file descriptor its number
        result = io.StringIO(content, newline="")
        result.name = case["unnamed"]
        return result

    attempt("rows", lambda: list(cutplace.rows(cid, stream(text), on_error="yield")), errors, leaks)
    attempt("validate", lambda: cutplace.validate(cid, stream(text)), errors, leaks)
    if "unnamed" in case:
        def write():
            with cutplace.Writer(cid, stream("")) as writer:
                for row in DATA + [DATA[0][:-1]]:
                    try:
                        writer.write_row([row[i] for i in order if i < len(row)])
                    except errors.DataError:
                        pass

        attempt("Writer", write, errors, leaks)
        part.transitions += 1
    part.transitions += 2
    part.validated += 1
    part.state((fmt, "stream", tuple(OUTCOMES)))
    part.outcome("leak" if leaks else "clean")
    for where, exception in leaks:
        part.fail("%s|stream:%s%s%s:%s|%s|%s|%s" % (fmt, "flag-first" if case["flag_first"] else "flag-last", ":quoted" if case.get("quoted") else "", ":name=%r" % (case["unnamed"],) if "unnamed" in case else "", {"\n": "lf", "\r": "cr", "\r\n": "crlf"}.get(ending, ending), where, exception,
                                                "intact" if not mutation else mutation[0]), case, "success, InterfaceError or DataError", [where, exception])


def streams(item):
    part = Part()
    for case in item:
        stream_case(case, part)
    part.sample(item[len(item) // 2], limit=1)
    return part


def stream_cases():
    cases = []
    for fmt in ("fixed", "delimited"):
        for flag_first in (True, False):
            for ending in ("\n", "\r\n", "\r", "mixed"):
                cases.append({"format": fmt, "flag_first": flag_first, "ending": ending})
                for at in range(0, 130):
                    cases.append({"format": fmt, "flag_first": flag_first, "ending": ending, "mutation": ["delete", at]})
                    for character in ("x", "\r", "\n", '"'):
                        cases.append({"format": fmt, "flag_first": flag_first, "ending": ending, "mutation": ["replace", at, character]})
    # streams whose name is None, a number or empty (temporary files, streams opened on a file descriptor)
    for fmt in ("fixed", "delimited"):
        for unnamed in (None, 0, 7, ""):
            base = {"format": fmt, "flag_first": False, "ending": "\n", "unnamed": unnamed}
            cases.append(dict(base))
            for at in range(0, 130, 9):
                cases.append(dict(base, mutation=["delete", at]))
                cases.append(dict(base, mutation=["replace", at, '"']))
    # delimited data with every item quoted, one or three rows: damage inside the very first physical line
    for rows in (1, 3):
        for ending in ("\n", "\r\n", ""):
            base = {"format": "delimited", "flag_first": False, "ending": ending, "quoted": True, "rows": rows}
            cases.append(dict(base))
            for at in range(0, 62 * rows):
                cases.append(dict(base, mutation=["delete", at]))
                for character in ("x", '"', ",", "\n"):
                    cases.append(dict(base, mutation=["replace", at, character]))
                    cases.append(dict(base, mutation=["insert", at, character]))
    return cases


_CONTAINERS = {}


def cid_container(storage, fmt):
    key = (storage, fmt)
    if key not in _CONTAINERS:
        rows = base_rows(fmt)
        if storage == "csv":
            stream = io.StringIO()
            csv.writer(stream, lineterminator="\n").writerows(rows)
            _CONTAINERS[key] = stream.getvalue().encode("utf-8")
        elif storage == "ods":
            path = os.path.join(readermachine.tmpdir(), "cidc_%d.ods" % os.getpid())
            width = max(len(r) for r in rows)
            odf.write_ods(path, [[r + [""] * (width - len(r)) for r in rows]], {})
            _CONTAINERS[key] = open(path, "rb").read()
        else:
            import xlsxwriter

            path = os.path.join(readermachine.tmpdir(), "cidc_%d.xlsx" % os.getpid())
            workbook = harness.new_workbook(path)
            sheet = workbook.add_worksheet()
            for y, row in enumerate(rows):
                for x, cell in enumerate(row):
                    if cell != "":
                        sheet.write_string(y, x, cell)
            workbook.close()
            _CONTAINERS[key] = open(path, "rb").read()
    return _CONTAINERS[key]


def containers(item):
    part = Part()
    for case in item:
        container_case(case, part)
    part.sample(item[0], limit=1)
    return part


def structural_offsets(content):
    """Offsets of the bytes of a zip archive that describe its structure: local file headers, central directory, end record."""
    import struct

    offsets = set()
    position = content.find(b"PK\x03\x04")
    while position >= 0:
        if position + 30 <= len(content):
            name_length, extra_length = struct.unpack("<HH", content[position + 26:position + 30])
            offsets.update(range(position, min(len(content), position + 30 + name_length + extra_length)))
        position = content.find(b"PK\x03\x04", position + 4)
    position = content.find(b"PK\x01\x02")
    while position >= 0:
        if position + 46 <= len(content):
            name_length, extra_length, comment_length = struct.unpack("<HHH", content[position + 28:position + 34])
            offsets.update(range(position, min(len(content), position + 46 + name_length + extra_length + comment_length)))
        position = content.find(b"PK\x01\x02", position + 4)
    position = content.rfind(b"PK\x05\x06")
    if position >= 0:
        offsets.update(range(position, len(content)))
    return sorted(offsets)


def container_cases(tier):
    cases = []
    step = 16 if tier == "quick" else 1
    bits = (0, 4, 7) if tier == "quick" else tuple(range(8))
    material = readermachine.xls_material()
    if material is not None:
        for at in range(0, len(material), 8 if tier == "quick" else 1):
            for bit in (0, 7) if tier == "quick" else tuple(range(8)):
                cases.append({"format": "excel", "target": "xls", "kind": "flip", "at": at + (bit % 5 if tier == "quick" else 0), "bit": bit})
        # neighbouring offsets behave alike (a whole sector of cases may run into the time limit): deal them out over the work items
        cases = [case for start in range(61) for case in cases[start::61]]
    for fmt in ("ods", "excel"):
        source = data_source(fmt, DATA, "structure")
        content = open(source, "rb").read()
        for at in structural_offsets(content):
            for bit in bits:
                cases.append({"format": fmt, "target": "data", "kind": "flip", "at": at, "bit": bit, "structural": True})
    for storage in ("ods", "xlsx"):
        for at in structural_offsets(cid_container(storage, "delimited")):
            for bit in bits:
                cases.append({"format": "delimited", "target": "cid", "cid_storage": storage, "kind": "flip", "at": at, "bit": bit, "structural": True})
    for fmt in ("delimited", "fixed", "ods", "excel"):
        source = data_source(fmt, DATA, "size")
        size = os.path.getsize(source) if isinstance(source, str) else len(source.getvalue().encode("utf-8"))
        text_step = 1 if fmt in ("delimited", "fixed") else step
        for at in range(0, size, text_step):
            cases.append({"format": fmt, "target": "data", "kind": "truncate", "at": at})
            for bit in (0, 7):
                cases.append({"format": fmt, "target": "data", "kind": "flip", "at": at, "bit": bit})
    for storage in ("csv", "ods", "xlsx"):
        size = len(cid_container(storage, "delimited"))
        text_step = 1 if storage == "csv" else step
        for at in range(0, size, text_step * (2 if tier == "quick" else 1)):
            cases.append({"format": "delimited", "target": "cid", "cid_storage": storage, "kind": "truncate", "at": at})
            for bit in (0, 7):
                cases.append({"format": "delimited", "target": "cid", "cid_storage": storage, "kind": "flip", "at": at, "bit": bit})
    return cases


def run(ctx):
    quick = ctx.tier == "quick"
    cases = []
    for fmt in ("delimited", "fixed", "excel", "ods"):
        rows = base_rows(fmt)
        for row, column in cid_cells(fmt):
            # the field and check rows of the Excel / ODS CIDs are those of the delimited CID: every 3rd value there
            values = HOSTILE if fmt in ("delimited", "fixed") or rows[row][0] == "D" or not quick else HOSTILE[::3]
            for value in values:
                cases.append({"format": fmt, "cid": [[row, column, value]], "main": fmt == "delimited" or (fmt == "fixed" and rows[row][0] == "D")})
        for row in range(len(DATA)):
            for column in range(len(DATA[0])):
                for value in HOSTILE:
                    cases.append({"format": fmt, "data": [[row, column, value]], "main": row == 0 and fmt in ("delimited", "excel")})
    for attribute in ("columns", "blanks"):
        for value in ODS_ATTRIBUTE_VALUES:
            cases.append({"ods_attribute": attribute, "value": value})
    for row in range(len(DATA) if not quick else 1):
        for column in range(len(DATA[0])):
            for value in NATIVE:
                cases.append({"format": "excel", "data": [[row, column, value]], "main": column == 0})
    single = len(cases)
    if not quick:
        short = HOSTILE[:30]
        for fmt in ("delimited", "fixed"):
            rows = base_rows(fmt)
            for row, full in enumerate(rows):
                for (c1, c2) in itertools.combinations(range(1, len(full)), 2):
                    for v1, v2 in itertools.product(short, repeat=2):
                        cases.append({"format": fmt, "cid": [[row, c1, v1], [row, c2, v2]], "main": False})
            for row, column in cid_cells(fmt):
                if column == 0:
                    continue
                for data_column in range(len(DATA[0])):
                    for v1, v2 in itertools.product(short[:16], short[:16]):
                        cases.append({"format": fmt, "cid": [[row, column, v1]], "data": [[0, data_column, v2]], "main": False})
    ctx.pmap(MOD, "work", engine.chunks(cases, 150 if quick else 600), label="C10 cells")
    corrupt = container_cases(ctx.tier)
    ctx.pmap(MOD, "containers", engine.chunks(corrupt, 60), label="C10 containers")
    stream = stream_cases()
    ctx.pmap(MOD, "streams", engine.chunks(stream, 400), label="C10 streams")
    ctx.bound = {"stream cases": "%d: fixed and delimited data as line-ending preserving streams in 4 line-ending styles (LF, CRLF, CR, mixed), one-character field first / last, one character deleted or replaced (x, CR, LF, quote) at every offset" % len(stream),
                 "hostile pool": len(HOSTILE), "natively typed Excel cells": len(NATIVE), "single hostile cell cases": single, "pair cases": len(cases) - single,
                 "container cases": "%d (truncation and low/high bit flip at every %s offset of ods/xlsx files, every offset of csv / fixed text; bits %s of every byte of the zip local headers, central directory and end record; data files of 4 formats, CID files as csv, ods, xlsx)" % (len(corrupt), "16th" if quick else "single", "0, 4, 7" if quick else "0..7")}
    ctx.rule = ("one hostile value at a time (thorough: pairs) in every cell of every row of 4 valid base CIDs and of their 3-row data; each case runs Cid.read, rows x 3 modes, validate, Writer and "
                "applications.main; non-trivial = every case (each injects a fault); states = distinct vectors of outcomes over the entry points (loaded / error class per call, exit code); any escaping exception other than "
                "InterfaceError / DataError or exit code 4 is a failure")
    ctx.assumptions = ["OSError for unreadable paths is outside the property", "hostile values a producer cannot store in an ods/xlsx file (control characters, lone surrogates) are skipped for those formats"]
