"""C11 — data-format properties mean what the CID says; contradictions are refused.

Explorer (P): every property x every format (applicability), every documented spelling of every
code point of a pool as item delimiter, every printable ASCII character for the character-set
properties, line delimiter names, encodings, Header / Sheet values, all pairs for the consistency
rules, and the defaults.  Each case is a small CID read through Cid.read; the oracle is the table
transcribed from the statement and docs/writing-an-icd.rst from which the case was generated.
"""
import codecs
import itertools
import json

from mc import engine, harness
from mc.core import Part
from mc.models import intervals

MOD = "mc.props.c11"
FORMATS = ["delimited", "fixed", "excel", "ods"]
APPLIES = {
    "encoding": FORMATS, "header": FORMATS, "allowed characters": FORMATS,
    "escape character": ["delimited"], "item delimiter": ["delimited"], "quote character": ["delimited"], "quoting": ["delimited"], "skip initial space": ["delimited"],
    "decimal separator": ["delimited", "fixed"], "thousands separator": ["delimited", "fixed"], "line delimiter": ["delimited", "fixed"],
    "sheet": ["excel", "ods"],
}
VALID_VALUE = {"encoding": "utf-8", "header": "1", "allowed characters": "32...", "escape character": '"', "item delimiter": ";", "quote character": "'", "quoting": "all",
               "skip initial space": "true", "decimal separator": ",", "thousands separator": ",", "line delimiter": "lf", "sheet": "2"}
ATTRIBUTE = {"encoding": "encoding", "header": "header", "escape character": "escape_character", "item delimiter": "item_delimiter", "quote character": "quote_character",
             "decimal separator": "decimal_separator", "thousands separator": "thousands_separator", "line delimiter": "line_delimiter", "sheet": "sheet", "skip initial space": "skip_initial_space"}
QUOTE_SET = "!\"#$%&'*+-/:;=?\\^_`~"
PRINTABLE = [chr(c) for c in range(32, 127)]
CODE_POOL = list(range(33, 127)) + [9, 10, 13, 32, 0xE4, 0x20AC, 0xB2, 0xBD, 0x663, 0x2460]  # incl. characters str.isdigit() / isnumeric() take for digits


def field_row(fmt):
    return ["F", "a", "", "", "3" if fmt == "fixed" else "", "Text", ""]


def name_variants(name):
    return list(dict.fromkeys([name.capitalize(), name.upper(), name.lower(), name.title(), name.replace(" ", "_"), name.title().replace(" ", "_")]))


def fingerprint(data_format):
    return tuple(sorted((k, repr(v)) for k, v in data_format.__dict__.items() if k.startswith("_") and not k.startswith("_VALID") and k != "_allowed_characters"))


def judge(case, part):
    m = harness.modules()
    errors = m["errors"]
    fmt = case["format"]
    rows = [["D", "Format", fmt]] + [["D"] + list(prop) for prop in case["props"]] + [field_row(fmt)]
    part.evaluations += 1
    part.transitions += 1
    expect = case["expect"]
    tag = "%s|%s|%%s" % (case["group"], fmt)
    def load():
        try:
            return "accept", "accepted", harness.make_cid(rows)
        except errors.InterfaceError as error:
            return "refuse", str(error), None
        except Exception as error:
            return "raised-" + type(error).__name__, repr(error), None

    outcome, detail, cid = load()
    part.outcome(outcome)
    # the same CID contents loaded a second time in this process: the verdict is a function of the contents
    again, again_detail, cid_again = load()
    part.transitions += 1
    if again != outcome:
        part.fail(tag % ("verdict-changes-when-loaded-again:%s-then-%s:%s" % (outcome, again, case.get("what", ""))), case, outcome, [again, again_detail])
        return
    if cid is not None and cid_again is not None and fingerprint(cid.data_format) != fingerprint(cid_again.data_format):
        part.fail(tag % ("data-format-changes-when-loaded-again:" + case.get("what", "")), case, repr(fingerprint(cid.data_format)), repr(fingerprint(cid_again.data_format)))
        return
    if case.get("same_as") is not None:
        # cells behind the value cell are remarks: verdict and effective data format are those of the rows without them
        part.validated += 1
        part.nontrivial += 1
        plain_rows = [["D", "Format", fmt]] + [["D"] + list(prop) for prop in case["same_as"]] + [field_row(fmt)]
        try:
            plain, plain_print = "accept", fingerprint(harness.make_cid(plain_rows).data_format)
        except errors.InterfaceError:
            plain, plain_print = "refuse", None
        except Exception as error:
            plain, plain_print = "raised-" + type(error).__name__, None
        if outcome != plain:
            part.fail(tag % ("%s-but-%s-without-the-remark-cell:%s" % (outcome, plain, case.get("what", ""))), case, plain, [outcome, detail])
        elif cid is not None and fingerprint(cid.data_format) != plain_print:
            part.fail(tag % ("data-format-differs-from-the-one-without-the-remark-cell:" + case.get("what", "")), case, repr(plain_print), repr(fingerprint(cid.data_format)))
        return
    if expect != "either":
        part.validated += 1
        if expect in ("refuse",):
            part.nontrivial += 1
    if outcome.startswith("raised"):
        part.fail(tag % (outcome + ":" + case.get("what", "")), case, expect, detail)
        return
    if expect == "either":
        pass
    elif outcome != expect:
        part.fail(tag % ("%s-but-expected-%s:%s" % (outcome, expect, case.get("what", ""))), case, expect, detail if outcome == "refuse" else "accepted")
        return
    if outcome == "accept":
        data_format = cid.data_format
        part.state((fmt, fingerprint(data_format)))
        for code, expected_inside in case.get("allowed_probe", []):
            # the effective allowed-characters range, probed code point by code point
            part.validated += 1
            allowed = data_format.allowed_characters
            try:
                if allowed is not None:
                    allowed.validate("x", code)
                inside = True
            except errors.RangeValueError:
                inside = False
            if inside != expected_inside:
                part.fail(tag % ("allowed-characters:code-%d-%s" % (code, "refused" if expected_inside else "accepted")), case, expected_inside, inside)
        for attribute, value in case.get("attrs", {}).items():
            part.validated += 1
            try:
                observed = getattr(data_format, attribute)
            except Exception as error:
                observed = "raised-" + type(error).__name__
            if attribute == "encoding":
                same = codecs.lookup(observed).name == codecs.lookup(value).name
            else:
                same = observed == value
            if not same:
                part.fail(tag % ("wrong-effective-value:" + attribute), case, value, observed)


# ---- enumeration ------------------------------------------------------------------------------
def cases_applicability():
    cases = []
    for name, formats in APPLIES.items():
        for fmt in FORMATS:
            for variant in name_variants(name):
                applies = fmt in formats
                props = [[variant, VALID_VALUE[name]]]
                if name == "thousands separator" and applies:
                    props = [["Decimal separator", "."], [variant, ","]]
                attrs = {}
                cases.append({"group": "applicability", "format": fmt, "props": props, "expect": "accept" if applies else "refuse", "what": name, "attrs": attrs})
    for name, formats in APPLIES.items():
        for fmt in formats:
            for value in ("", " ", VALID_VALUE[name]):
                for remark in (["a remark"], ["", "5"], [" ", "'"]):
                    cases.append({"group": "applicability", "format": fmt, "props": [[name.capitalize(), value] + remark], "same_as": [[name.capitalize(), value]], "expect": "either",
                                  "what": "%s %r with cells behind the value" % (name, value)})
    for fmt in FORMATS:
        for bogus in ("is valid", "is_valid", "format name", "delimiter", "x", "valid line delimiter texts", "quote", "sheets"):
            cases.append({"group": "applicability", "format": fmt, "props": [[bogus, "1"]], "expect": "refuse", "what": "unknown property " + bogus})
    return cases


def spellings_of(code):
    spellings = [str(code), "0x%x" % code, "0X%X" % code]
    character = chr(code)
    if code in intervals.SYMBOLIC:
        name = intervals.SYMBOLIC[code]
        spellings += [name, name.title(), name.upper()]
    if code > 32 and character not in "0123456789" and not character.isspace():
        spellings.append(character)  # literal (deprecated syntax); white space cannot be written this way
    if code >= 32 and character not in "\"'\\":
        spellings += ['"%s"' % character, "'%s'" % character]
    if character == '"':
        spellings += ["'\"'", '"\\""']
    if character == "'":
        spellings += ['"\'"', "'\\''"]
    if character == "\\":
        spellings += ['"\\\\"']
    escapes = {9: "\\t", 10: "\\n", 13: "\\r"}
    if code in escapes:
        spellings += ['"%s"' % escapes[code], "'%s'" % escapes[code]]
    if code < 256:
        spellings.append('"\\x%02x"' % code)
    spellings.append('"\\u%04x"' % code if code <= 0xFFFF else '"\\U%08x"' % code)
    return list(dict.fromkeys(spellings))


THOROUGH_CODE_POOL = sorted(set(CODE_POOL) | set(range(1, 0x250)) | {0x3B1, 0x5D0, 0x2028, 0x20AC, 0x3000, 0xD7FF, 0xE000, 0xFEFF, 0xFFFD, 0xFFFF, 0x10000, 0x1F600, 0x10FFFF})


def cases_spellings(tier="quick"):
    cases = []
    for code in (THOROUGH_CODE_POOL if tier == "thorough" else CODE_POOL):
        character = chr(code)
        for spelling in spellings_of(code):
            props = [["Item delimiter", spelling]]
            if character == '"':
                props += [["Quote character", "'"], ["Escape character", "\\"]]
            expect = "either" if code in (10, 13) or character == '"' else "accept"
            cases.append({"group": "spelling", "format": "delimited", "props": props, "expect": expect, "what": "item delimiter U+%04X" % code, "attrs": {"item_delimiter": character}})
    malformed = ["1 2", '"a" "b"', "1.5", '""', "''", " ", "", '"abc', '"ab"', "0", "0x0", "0x110000", "1114112", "-1", "- 1", "tab tab", "tabs", "1e3", "0x", "0xg", '"\\', "[1]", "1,2", "99999999999999999999999999999999999999"]
    for text in malformed:
        cases.append({"group": "spelling", "format": "delimited", "props": [["Item delimiter", text]], "expect": "refuse", "what": "malformed item delimiter"})
    return cases


def cases_character_sets():
    cases = []
    for character in PRINTABLE:
        in_quote_set = character in QUOTE_SET
        cases.append({"group": "character-set", "format": "delimited", "props": [["Item delimiter", "|"], ["Quote character", character]] + ([["Escape character", character]] if False else []),
                      "expect": ("accept" if in_quote_set else "refuse") if character != '"' else "accept", "what": "quote character", "attrs": {"quote_character": character} if in_quote_set else {}})
        expect_escape = "accept" if character == '"' else ("either" if character == "\\" else "refuse")
        cases.append({"group": "character-set", "format": "delimited", "props": [["Escape character", character]], "expect": expect_escape, "what": "escape character",
                      "attrs": {"escape_character": character} if expect_escape == "accept" else {}})
        for fmt in ("delimited", "fixed"):
            item = [["Item delimiter", "|"]] if fmt == "delimited" else []
            expect_decimal = "accept" if character in ".," else "refuse"
            cases.append({"group": "character-set", "format": fmt, "props": item + [["Decimal separator", character]], "expect": expect_decimal, "what": "decimal separator",
                          "attrs": {"decimal_separator": character} if expect_decimal == "accept" else {}})
            other = "," if character == "." else "."
            expect_thousands = "accept" if character in ".," else ("either" if character == " " else "refuse")
            cases.append({"group": "character-set", "format": fmt, "props": item + [["Decimal separator", other], ["Thousands separator", character]], "expect": expect_thousands, "what": "thousands separator",
                          "attrs": {"thousands_separator": character, "decimal_separator": other} if expect_thousands == "accept" else {}})
    # values that are not a single character of the documented set: empty, several characters, the whole set
    multi = ["", '"#', "#$", "+-", ":;", ".,", ",.", '""', "''", QUOTE_SET, "a'", "' ", " '", "\\\\", "..", ",,"]
    for value in multi:
        cases.append({"group": "character-set", "format": "delimited", "props": [["Item delimiter", "|"], ["Quote character", value]], "expect": "refuse", "what": "quote character (not a single character)"})
        cases.append({"group": "character-set", "format": "delimited", "props": [["Escape character", value]], "expect": "refuse", "what": "escape character (not a single character)"})
        for fmt in ("delimited", "fixed"):
            item = [["Item delimiter", "|"]] if fmt == "delimited" else []
            cases.append({"group": "character-set", "format": fmt, "props": item + [["Decimal separator", value]], "expect": "refuse", "what": "decimal separator (not a single character)"})
            if value != "":
                cases.append({"group": "character-set", "format": fmt, "props": item + [["Decimal separator", "."], ["Thousands separator", value]], "expect": "refuse" if value not in (",",) else "accept", "what": "thousands separator (not a single character)"})
            else:  # an explicitly empty thousands separator is not documented: either verdict, but always the same one
                cases.append({"group": "character-set", "format": fmt, "props": item + [["Decimal separator", "."], ["Thousands separator", ""]], "expect": "either", "what": "thousands separator (explicitly empty)"})
    for value in ("", "minimal ", "ALL", "All", "Minimal", "none", "minimalall", "m", "al"):
        expect = "accept" if value.lower() in ("all", "minimal") else "refuse"
        cases.append({"group": "character-set", "format": "delimited", "props": [["Quoting", value]], "expect": expect, "what": "quoting"})
    for value in ("true", "True", "FALSE", "false", "", "yes", "1", "truefalse", "t"):
        expect = "accept" if value.lower() in ("true", "false") else "refuse"
        cases.append({"group": "character-set", "format": "delimited", "props": [["Skip initial space", value]], "expect": expect, "what": "skip initial space",
                      "attrs": {"skip_initial_space": value.lower() == "true"} if expect == "accept" else {}})
    return cases


def cases_allowed_characters():
    """Values of the allowed-characters property keep their case and their quoting: only names are case-insensitive."""
    cases = []
    probes = {
        '"A"..."Z"': [(65, True), (90, True), (64, False), (91, False), (97, False), (122, False)],
        "'a'...'z', \"A\"...\"F\"": [(97, True), (122, True), (65, True), (70, True), (71, False), (96, False)],
        '"Ä"..."Ü", 48...57': [(0xC4, True), (0xDC, True), (0xE4, False), (0xFC, False), (48, True), (58, False)],
        "0x41...0x5A": [(65, True), (90, True), (97, False)],
        "TAB, LF, 32...": [(9, True), (10, True), (13, False), (32, True), (0x10FFFF, True)],
        '"\t"..."\r"': [(9, True), (13, True), (32, False)],
    }
    for fmt in ("delimited", "fixed", "excel", "ods"):
        for value, probe in probes.items():
            cases.append({"group": "allowed-characters", "format": fmt, "props": [["Allowed characters", value]], "expect": "accept", "what": "allowed characters " + value, "allowed_probe": probe})
            cases.append({"group": "allowed-characters", "format": fmt, "props": [["ALLOWED CHARACTERS", value]], "expect": "accept", "what": "allowed characters " + value, "allowed_probe": probe})
        for value in ('"AB"', "Z...A", '"a"..."', "x", "1...2...3", "-"):
            cases.append({"group": "allowed-characters", "format": fmt, "props": [["Allowed characters", value]], "expect": "refuse", "what": "malformed allowed characters"})
    return cases


def cases_line_delimiters_and_encodings():
    cases = []
    values = {"lf": "\n", "cr": "\r", "crlf": "\r\n", "any": "any"}
    for fmt in ("delimited", "fixed"):
        for name, effective in values.items():
            for spelling in (name, name.upper(), name.title(), name[:1] + name[1:].upper()):
                cases.append({"group": "line-delimiter", "format": fmt, "props": [["Line delimiter", spelling]], "expect": "accept", "what": "line delimiter name", "attrs": {"line_delimiter": effective}})
        for bogus in ("nl", "", "10", "\\n", "lfcr", "cr lf", "cr+lf", "newline", "all", "l f", "\n", "\r", "\r\n", "\n\r", "0x0a", "\\r\\n"):  # the characters themselves are not names
            cases.append({"group": "line-delimiter", "format": fmt, "props": [["Line delimiter", bogus]], "expect": "refuse", "what": "unknown line delimiter"})
        for spelling in ("none", "None", "NONE"):
            cases.append({"group": "line-delimiter", "format": fmt, "props": [["Line delimiter", spelling]], "expect": "either" if fmt == "fixed" else "refuse", "what": "line delimiter none"})
    encodings = ["ascii", "ASCII", "utf-8", "UTF-8", "utf_8", "latin-1", "iso-8859-1", "cp1252", "CP850", "utf-16", "mac-roman", "cp437", "u8",
                 "iso_8859-1:1987", "ISO_8859-2:1987", "ISO_646.irv:1991", "latin 1", "utf 8", "ISO 8859-15", "windows 1252", "UTF_16_LE", "csISOLatin1", "l1", "646", "8859", "IBM037", "euc-jp", "hz", "big5hkscs",
                 "utf-99", "klingon", "latin 99", "iso_8859-1:2087", "utf 9", "", "cp99999", "utf8x", "ebcdic", "ascii\x00", "\x00"]
    for fmt in FORMATS:
        for name in encodings:
            try:
                codecs.lookup(name)
                known = True
            except (LookupError, ValueError):
                known = False
            cases.append({"group": "encoding", "format": fmt, "props": [["Encoding", name]], "expect": "accept" if known else "refuse", "what": "encoding", "attrs": {"encoding": name} if known else {}})
    return cases


def cases_numbers():
    cases = []
    for fmt in FORMATS:
        for text, ok, value in (("-1", False, None), ("0", True, 0), ("1", True, 1), ("17", True, 17), ("1.5", False, None), ("x", False, None), ("", False, None), ("1e2", False, None), ("0x10", False, None), ("--1", False, None)):
            cases.append({"group": "number", "format": fmt, "props": [["Header", text]], "expect": "accept" if ok else "refuse", "what": "header", "attrs": {"header": value} if ok else {}})
    for fmt in ("excel", "ods"):
        for text, ok, value in (("-1", False, None), ("0", False, None), ("1", True, 1), ("2", True, 2), ("1.5", False, None), ("x", False, None), ("", False, None), ("17", True, 17)):
            cases.append({"group": "number", "format": fmt, "props": [["Sheet", text]], "expect": "accept" if ok else "refuse", "what": "sheet", "attrs": {"sheet": value} if ok else {}})
    return cases


def cases_pairs():
    cases = []
    item_pool = list(QUOTE_SET) + [",", "|", "a", " ", "\t"]
    for item in item_pool:
        for quote in QUOTE_SET:
            if item == '"' and quote != '"':
                expect = "either"  # item delimiter equals the default escape character
            else:
                expect = "refuse" if item == quote else "accept"
            cases.append({"group": "consistency", "format": "delimited", "props": [["Quote character", quote], ["Item delimiter", str(ord(item))]], "expect": expect, "what": "item delimiter vs quote character"})
            cases.append({"group": "consistency", "format": "delimited", "props": [["Item delimiter", str(ord(item))], ["Quote character", quote]], "expect": expect, "what": "item delimiter vs quote character (other order)"})
    # the escape character next to every quote character, declared before and behind it: its set does not depend on the quote character
    for quote in QUOTE_SET:
        for escape in dict.fromkeys(('"', "\\", quote, "'", "#")):
            expect = "accept" if escape == '"' else ("either" if escape == "\\" else "refuse")
            for order in (0, 1):
                props = [["Quote character", quote], ["Escape character", escape]]
                if order:
                    props.reverse()
                cases.append({"group": "consistency", "format": "delimited", "props": [["Item delimiter", "|"]] + props, "expect": expect, "what": "escape character next to quote character" + (" (other order)" if order else "")})
    for item_name, item in (("lf", "\n"), ("cr", "\r")):
        for line in ("lf", "cr", "crlf", "any"):
            line_text = {"lf": "\n", "cr": "\r"}.get(line)
            cases.append({"group": "consistency", "format": "delimited", "props": [["Line delimiter", line], ["Item delimiter", item_name]], "expect": "refuse" if line_text == item else "either", "what": "item delimiter vs line delimiter"})
    for fmt in ("delimited", "fixed"):
        item = [["Item delimiter", "|"]] if fmt == "delimited" else []
        for decimal, thousands in itertools.product(".,", ".,"):
            for order in (0, 1):
                pair = [["Decimal separator", decimal], ["Thousands separator", thousands]]
                if order:
                    pair.reverse()
                cases.append({"group": "consistency", "format": fmt, "props": item + pair, "expect": "refuse" if decimal == thousands else "accept", "what": "decimal vs thousands separator",
                              "attrs": {} if decimal == thousands else {"decimal_separator": decimal, "thousands_separator": thousands}})
        cases.append({"group": "consistency", "format": fmt, "props": item + [["Thousands separator", "."]], "expect": "refuse", "what": "thousands separator equal to the default decimal separator"})
        # the same contradiction next to every line delimiter setting, declared before, between and after the separators
        for line in ("lf", "cr", "crlf", "any") + (("none",) if fmt == "fixed" else ()):
            for decimal, thousands in itertools.product(".,", ".,"):
                for position in (0, 1, 2):
                    props = [["Decimal separator", decimal], ["Thousands separator", thousands]]
                    props.insert(position, ["Line delimiter", line])
                    expect = "refuse" if decimal == thousands else ("either" if line == "none" else "accept")
                    cases.append({"group": "consistency", "format": fmt, "props": item + props, "expect": expect, "what": "decimal vs thousands separator with line delimiter " + line})
            cases.append({"group": "consistency", "format": fmt, "props": item + [["Line delimiter", line], ["Thousands separator", "."]], "expect": "refuse", "what": "thousands separator equal to the default decimal separator with line delimiter " + line})
    return cases


def cases_defaults():
    cases = []
    for fmt in FORMATS:
        attrs = {"header": 0}
        if fmt in ("excel", "ods"):
            attrs["sheet"] = 1
        else:
            attrs.update({"decimal_separator": ".", "thousands_separator": ""})
        cases.append({"group": "defaults", "format": fmt, "props": [], "expect": "accept", "what": "defaults", "attrs": attrs})
        for synonym in ([fmt.upper(), fmt.title()] + (["CSV", "csv"] if fmt == "delimited" else [])):
            cases.append({"group": "defaults", "format": synonym, "props": [], "expect": "accept", "what": "format name case", "attrs": {"header": 0}})
    for bogus in ("xml", "", "delimited2", "json"):
        cases.append({"group": "defaults", "format": bogus, "props": [], "expect": "refuse", "what": "unknown format"})
    return cases


def all_cases(tier="quick"):
    return (cases_applicability() + cases_spellings(tier) + cases_character_sets() + cases_allowed_characters() + cases_line_delimiters_and_encodings() + cases_numbers() + cases_pairs() + cases_defaults())


def verdict_of(case):
    """accept / refuse / raised-... for one case, without judging it."""
    m = harness.modules()
    fmt = case["format"]
    rows = [["D", "Format", fmt]] + [["D"] + list(prop) for prop in case["props"]] + [field_row(fmt)]
    try:
        harness.make_cid(rows)
        return "accept"
    except m["errors"].InterfaceError:
        return "refuse"
    except Exception as error:
        return "raised-" + type(error).__name__


def work(group):
    part = Part()
    first_verdicts = {}
    for case in group:
        judge(dict(case), part)
        # a case that occurs several times in one work item (the one-process pass): its verdict does not depend on what was loaded in between
        key = json.dumps([case["format"], case["props"]])
        verdict = verdict_of(case)
        part.transitions += 1
        if first_verdicts.setdefault(key, verdict) != verdict:
            part.fail("%s|%s|verdict-depends-on-what-was-loaded-before:%s-then-%s:%s" % (case["group"], case["format"], first_verdicts[key], verdict, case.get("what", "")), case, first_verdicts[key], verdict)
    part.sample(group[0], limit=1)
    return part


def field_row(fmt):
    return ["F", "a", "", "", "3" if fmt.lower() == "fixed" else "", "Text", ""]


def run(ctx):
    cases = all_cases(ctx.tier)
    counts = {}
    for case in cases:
        counts[case["group"]] = counts.get(case["group"], 0) + 1
    ctx.bound = {"cases per group": counts, "code points": ("every code point U+0001..U+024F and 13 selected ones up to U+10FFFF" if ctx.tier == "thorough" else "printable ASCII 33..126, tab, CR, LF, blank, U+00E4, U+20AC") + "; every documented spelling of each",
                 "pairs": "item delimiter (25 values) x quote character (all 20) in both declaration orders; decimal x thousands; CR/LF item delimiter x line delimiter"}
    ctx.rule = ("every case is a small CID read through Cid.read; expected outcome comes from the documented tables the case was generated from (accept with effective values, refuse = InterfaceError, "
                "or 'either' for grey zones); non-trivial = case that must be refused; states = distinct effective DataFormat settings reached")
    ctx.assumptions = ["grey zones (either outcome): backslash as escape character, blank as thousands separator, 'none' as line delimiter for fixed data, CR/LF or the default escape character as item delimiter",
                       "known encodings = those Python's codecs.lookup resolves in the harness process"]
    ctx.pmap(MOD, "work", engine.chunks(cases, 60), label="C11")
    # in one single process: first every case that need not be refused (those that must be accepted and empty values first), then all cases in reverse order, then all in order: whatever a refused or accepted value leaves
    # behind in module-level tables meets every other case there
    ctx.pmap(MOD, "work", [sorted((c for c in cases if c["expect"] != "refuse"), key=lambda c: 0 if c["expect"] == "accept" or any(p[1] == "" for p in c["props"]) else 1) + list(reversed(cases)) + cases], label="C11 one process")
