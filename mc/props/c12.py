"""C12 — delimited data round-trips through write and read for every accepted format.

Explorer (P): every combination of item delimiter (14 + CR, LF) x quote character (20) x escape character
(2) x quoting (2) x line delimiter (4) is declared through Cid.read (refused ones drop out); for
every accepted configuration every table of the bounded table set over an alphabet containing the
configured special characters is written and read back, through rowio directly and through
cutplace.Writer / cutplace.rows under an all-Text CID.  The csv engine is executed, not modelled.
"""
import io
import itertools
import os

from mc import engine, harness, readermachine
from mc.core import Part

MOD = "mc.props.c12"
ITEM_DELIMITERS = [",", ";", "|", ":", "\t", " ", "#", "'", '"', "\\", "a", "0", "~", "^", "\n", "\r"]
QUOTE_CHARACTERS = sorted("!\"#$%&'*+-/:;=?\\^_`~")
ESCAPE_CHARACTERS = ['"', "\\"]
QUOTINGS = ["minimal", "all"]
LINE_DELIMITERS = ["any", "lf", "cr", "crlf"]


def spell(character):
    return str(ord(character))


def cid_rows(config, columns):
    item, quote, escape, quoting, line = config
    rows = [["D", "Format", "Delimited"], ["D", "Item delimiter", spell(item)], ["D", "Quote character", quote], ["D", "Escape character", escape],
            ["D", "Quoting", quoting], ["D", "Line delimiter", line], ["D", "Encoding", "utf-8"]]
    if ord(item) % 2 == 1:
        rows[2], rows[3] = rows[3], rows[2]  # the escape character declared before the quote character in half of the configurations
    if ord(quote) % 2 == 0:
        rows.append(["D", "Skip initial space", "False"])  # declared explicitly in half of the configurations (the default is the same)
    for index in range(columns):
        rows.append(["F", "c%d" % index, "", "X", "", "Text", ""])
    return rows


# every character str.splitlines() treats as a line boundary besides CR and LF: they are ordinary characters in delimited data
OTHER_BREAKS = "a\x0b\x0c\x1c\x1d\x1e\x85\u2028\u2029b"


def alphabet(config):
    item, quote, escape, _, _ = config
    cells = ["x", "", " x ", item, quote, escape, quote + quote, escape + quote, item + quote, "\n", "\r", "x\n", quote + "x", "x" + escape, "\r\n", OTHER_BREAKS]
    return list(dict.fromkeys(cells))


def tables_for(config, tier):
    cells = alphabet(config)
    special = [c for c in cells if c != "x"]
    tables = []
    for shape in ((1, 1), (1, 2), (2, 1)):
        count = shape[0] * shape[1]
        for combo in itertools.product(cells, repeat=count):
            tables.append([list(combo[r * shape[1]:(r + 1) * shape[1]]) for r in range(shape[0])])
    def sparse(rows, columns, limit):
        count = rows * columns
        result = []
        for k in range(0, limit + 1):
            for positions in itertools.combinations(range(count), k):
                for values in itertools.product(special, repeat=k):
                    flat = ["x"] * count
                    for p, v in zip(positions, values):
                        flat[p] = v
                    result.append([flat[r * columns:(r + 1) * columns] for r in range(rows)])
        return result
    if tier == "quick":
        tables += sparse(2, 2, 1) + sparse(1, 3, 1) + sparse(3, 1, 1)
    else:
        tables += [[list(c[:2]), list(c[2:])] for c in itertools.product(cells, repeat=4)]
        tables += sparse(1, 3, 3) + sparse(1, 4, 2) + sparse(3, 1, 3) + sparse(4, 1, 2) + sparse(5, 1, 2) + sparse(3, 2, 2)
    return tables


def judge(case, part):
    """case: {"config": [item, quote, escape, quoting, line], "table": [[...]], "path": "rowio"|"api"}"""
    import cutplace

    m = harness.modules()
    errors = m["errors"]
    config = tuple(case["config"])
    table = case["table"]
    columns = len(table[0]) if table else 1
    try:
        cid = harness.make_cid(cid_rows(config, columns))
    except errors.InterfaceError:
        part.outcome("configuration-refused")
        return "refused"
    data_format = cid.data_format
    part.evaluations += 1
    part.transitions += 2
    part.validated += 1
    relation = "item==escape!=quote" if config[0] == config[2] and config[2] != config[1] else ("escape==quote" if config[1] == config[2] else "distinct")
    tag = "%s|quoting=%s|line=%s|%%s" % (relation, config[3], config[4])
    try:
        if case.get("path", "rowio") == "rowio":
            target = io.StringIO(newline="")
            writer = m["rowio"].DelimitedRowWriter(target, data_format)
            writer.write_rows(table)
            written = target.getvalue()
            back = list(m["rowio"].delimited_rows(io.StringIO(written, newline=""), data_format))
        elif case["path"] == "file":
            # through a file the reader opens itself (path source): rowio and API
            path = os.path.join(readermachine.tmpdir(), "c12_%d.csv" % os.getpid())
            with open(path, "w", newline="", encoding=data_format.encoding) as target:
                m["rowio"].DelimitedRowWriter(target, data_format).write_rows(table)
            with open(path, "r", newline="", encoding=data_format.encoding) as stored:
                written = stored.read()
            back = list(m["rowio"].delimited_rows(path, data_format))
            if back == table:
                back = list(cutplace.rows(harness.make_cid(cid_rows(config, columns)), path))
        elif case["path"] == "own-file":
            # a target the writers open themselves: first a file that does not exist yet (rowio writer), then one that holds other rows (validating writer)
            path = os.path.join(readermachine.tmpdir(), "c12_own_%d.csv" % os.getpid())
            if os.path.exists(path):
                os.remove(path)
            with m["rowio"].DelimitedRowWriter(path, data_format) as writer:
                writer.write_rows(table)
            back = list(m["rowio"].delimited_rows(path, data_format))
            written = "<file written by the rowio writer>"
            if back == table:
                with open(path, "w", newline="", encoding=data_format.encoding) as stale:
                    stale.write("left" + data_format.item_delimiter + "over" + (data_format.line_delimiter if data_format.line_delimiter in ("\n", "\r", "\r\n") else "\n"))
                with cutplace.Writer(cid, path) as writer:
                    writer.write_rows(table)
                back = list(cutplace.rows(harness.make_cid(cid_rows(config, columns)), path))
                written = "<file written by the validating writer over an older file>"
        else:
            target = io.StringIO(newline="")
            writer = cutplace.Writer(cid, target)
            writer.write_rows(table if case.get("path") != "api-iterator" else (row for row in table))  # rows may come from a one-shot iterable
            written = target.getvalue()
            writer.close()
            fresh = harness.make_cid(cid_rows(config, columns))
            back = list(cutplace.rows(fresh, io.StringIO(written, newline="")))
    except errors.CutplaceError as error:
        part.fail(tag % ("round-trip-raised-" + type(error).__name__), case, table, str(error))
        return "raised"
    except Exception as error:
        part.fail(tag % ("round-trip-raised-" + type(error).__name__), case, table, repr(error))
        return "raised"
    if back != table:
        part.fail(tag % ("table-changed:" + case.get("path", "rowio")), case, table, {"read": back, "text": written})
        return "changed"
    return "same"


def work(item):
    configs, tier = item
    m = harness.modules()
    errors = m["errors"]
    part = Part()
    for config in configs:
        try:
            cid = harness.make_cid(cid_rows(config, 1))
        except errors.InterfaceError:
            part.note("configurations refused by the loader")
            part.outcome("configuration-refused")
            continue
        except Exception as error:
            part.fail("loader-raised-" + type(error).__name__, {"config": list(config)}, "accepted or InterfaceError", repr(error))
            continue
        part.note("configurations accepted")
        part.state(config)
        data_format = cid.data_format
        rowio = m["rowio"]
        failures = 0
        tables = tables_for(config, tier)
        for table in tables:
            part.evaluations += 1
            part.transitions += 2
            part.validated += 1
            if any(cell != "x" for row in table for cell in row):
                part.nontrivial += 1
            try:
                target = io.StringIO(newline="")
                rowio.DelimitedRowWriter(target, data_format).write_rows(table)
                back = list(rowio.delimited_rows(io.StringIO(target.getvalue(), newline=""), data_format))
                same = back == table
            except Exception:
                same = False
            if not same and failures < 3:
                failures += 1
                judge({"config": list(config), "table": table, "path": "rowio"}, part)
        part.outcome("round-trip-same")
        api_tables = [t for t in tables if len(t) == 1 and len(t[0]) <= 2][: (80 if tier == "quick" else 10**6)]
        # the table without rows, through every path
        for path in ("rowio", "api", "file", "own-file"):
            judge({"config": list(config), "table": [], "path": path}, part)
        # and tables of two and three rows (a line delimiter between rows, not only behind the last one)
        taller = [t for t in tables if len(t) in (2, 3) and all(len(row) == len(t[0]) for row in t)]
        for table in api_tables + taller[:: max(1, len(taller) // (24 if tier == "quick" else 400))]:
            judge({"config": list(config), "table": table, "path": "api"}, part)
        for table in api_tables[:6]:
            judge({"config": list(config), "table": table, "path": "api-iterator"}, part)
        file_tables = api_tables
        if tier == "quick":  # the tables with line breaks inside cells (what a reader opening the file itself may translate) and a few others
            file_tables = [t for t in api_tables if any("\r" in c or "\n" in c or c == OTHER_BREAKS for c in t[0])][:10] + api_tables[:3]
        for table in file_tables:
            judge({"config": list(config), "table": table, "path": "file"}, part)
        for table in file_tables[:4]:
            judge({"config": list(config), "table": table, "path": "own-file"}, part)
    part.sample({"config": list(configs[0]), "alphabet": alphabet(configs[0]), "tables": len(tables_for(configs[0], tier)), "example table": tables_for(configs[0], tier)[200]}, limit=1)
    return part


def run(ctx):
    configs = list(itertools.product(ITEM_DELIMITERS, QUOTE_CHARACTERS, ESCAPE_CHARACTERS, QUOTINGS, LINE_DELIMITERS))
    items = [(chunk, ctx.tier) for chunk in engine.chunks(configs, 35 if ctx.tier == "quick" else 12)]
    ctx.pmap(MOD, "work", items, label="C12")
    ctx.bound = {"configurations tried": len(configs), "tables per configuration": len(tables_for(configs[0], ctx.tier)),
                 "table set": "quick: all 1x1, 1x2, 2x1 tables, 2x2 with <=2 and 1x3 / 3x1 with <=1 non-plain cells; thorough: all tables up to 2x2, 1x3 (<=3), 1x4, 4x1, 5x1, 3x2 (<=2), 3x1 (<=3 non-plain cells)",
                 "alphabet": "x, empty, ' x ', item delimiter d, quote q, escape e, qq, eq, dq, LF, CR, x+LF, q+x, x+e, CRLF, a cell holding VT FF FS GS RS NEL LS PS"}
    ctx.rule = ("full product of configurations, each declared through Cid.read; per accepted configuration every table of the bounded set is written and read back (rowio path for all tables, "
                "Writer/rows path for all one-row tables of up to two cells); non-trivial = table with at least one non-plain cell; states = accepted configurations")
    ctx.assumptions = ["rows of zero cells and skip-initial-space are outside the statement", "Python's csv engine is executed, not modelled"]
