"""C13 — fixed-width reading is lossless and aligned.

(1) Bounded enumeration: all strings over {a, b, CR, LF} up to length 7 (thorough 9) x width lists
    x the five delimiter settings, judged by the property-level oracle (mc/models/fixedspec.py).
(2) Fixpoint product search, explorer (S): the real fixed_rows generator reads from a harness
    stream that raises NeedMoreInput once the explored prefix is used up; the canonical state is
    taken from the generator frame at that blocked read; product with the specification automata;
    explored to the fixpoint = all inputs of every length over the alphabet.
"""
import collections
import itertools
import os
import sys

from mc import harness, readermachine, snapshot
from mc.core import Part
from mc.models import fixedspec

MOD = "mc.props.c13"
DELIMITERS = ["any", "\n", "\r", "\r\n", None]
IGNORED_LOCALS = ("location", "fixed_file", "fixed_source", "encoding", "field_name_and_lengths", "line_delimiter", "is_opened",
                  "_has_data_after_skipped_line_delimiter", "name", "length", "field_name", "field_length", "item", "item_length")


class NeedMoreInput(Exception):
    pass


class Stream(object):
    """Text stream over a fixed prefix; at a genuine end of input it returns short reads, otherwise it
    raises NeedMoreInput (after taking a snapshot of the reader's frame) when it would have to block."""

    def __init__(self, text, at_end):
        self.text = text
        self.position = 0
        self.at_end = at_end
        self.snapshot = None

    def read(self, size=-1):
        available = len(self.text) - self.position
        if size is not None and 0 <= size <= available:
            result = self.text[self.position:self.position + size]
            self.position += size
            return result
        if self.at_end:
            result = self.text[self.position:]
            self.position = len(self.text)
            return result
        # snapshot of the reader: every frame between this read() and the harness (whatever the functions are called),
        # with all their locals except the harness stream, location objects (message-only counters) and loop temporaries
        frame = sys._getframe(1)
        chain = []
        while frame is not None and frame.f_code.co_filename != __file__:
            local_state = {}
            for name, value in frame.f_locals.items():
                if name in IGNORED_LOCALS or value is self or type(value).__name__ == "Location":
                    continue
                local_state[name] = value
            chain.append((frame.f_code.co_name, frame.f_lineno, snapshot.snap(local_state)))
            frame = frame.f_back
        if frame is None:
            raise RuntimeError("read() not called from the harness")
        self.snapshot = (tuple(chain), self.text[self.position:], size)
        raise NeedMoreInput()


def run_reader(text, widths, delimiter, at_end):
    m = harness.modules()
    stream = Stream(text, at_end)
    rows = []
    try:
        for row in m["rowio"].fixed_rows(stream, "utf-8", [("f%d" % i, w) for i, w in enumerate(widths)], delimiter):
            rows.append(row)  # copied only once reading has stopped: a row must not change after it was returned
        return "ok", [list(r) for r in rows], None
    except NeedMoreInput:
        return "blocked", [list(r) for r in rows], stream.snapshot
    except m["errors"].DataFormatError as error:
        return "error", [list(r) for r in rows], str(error)
    except Exception as error:
        return "foreign:" + type(error).__name__, [list(r) for r in rows], repr(error)


def run_reader_path(text, widths, delimiter):
    """The same reading with the input stored in a file that fixed_rows opens itself (source given as a path)."""
    m = harness.modules()
    path = os.path.join(readermachine.tmpdir(), "fixed.txt")
    with open(path, "w", newline="", encoding="utf-8") as stream:
        stream.write(text)
    rows = []
    try:
        for row in m["rowio"].fixed_rows(path, "utf-8", [("f%d" % i, w) for i, w in enumerate(widths)], delimiter):
            rows.append(row)
        return "ok", [list(r) for r in rows], None
    except m["errors"].DataFormatError as error:
        return "error", [list(r) for r in rows], str(error)
    except Exception as error:
        return "foreign:" + type(error).__name__, [list(r) for r in rows], repr(error)


_CIDS = {}


def run_reader_cid(text, widths, delimiter, encoding=None):
    """The same reading through cutplace.rows under a CID that declares the widths and the line delimiter setting
    (every field is an optional Text field, so no row is rejected for its content)."""
    import cutplace

    m = harness.modules()
    key = (tuple(widths), delimiter, None if (encoding or "").startswith("@") else encoding)
    if key not in _CIDS:
        rows = [["D", "Format", "Fixed"], ["D", "Encoding", key[2] or "utf-8"], ["D", "Line delimiter", delimiter_name(delimiter)]]
        rows += [["F", "f%d" % i, "", "X", str(w)] for i, w in enumerate(widths)]
        _CIDS[key] = harness.make_cid(rows)
    rows = []
    source = harness.NamedStringIO(text)
    mode = "raise"
    if encoding in ("@continue", "@yield"):
        # the other error modes: a container fault still ends the read with a data format error, nothing is swallowed or handed out as an item
        mode, encoding = encoding[1:], None
    if encoding == "@offset":
        # a stream the caller has partly consumed (a title line read before the data): the data start where the stream stands
        encoding = None
        key = (tuple(widths), delimiter, None)
        preamble = "v02\n" if len(text) % 2 else "title line\r\n"
        source = harness.NamedStringIO(preamble + text)
        source.read(len(preamble))
    if encoding:
        # stored in the declared encoding (characters are not bytes) and opened by the reader itself
        source = os.path.join(readermachine.tmpdir(), "fixed_%s.txt" % encoding)
        with open(source, "w", newline="", encoding=encoding) as stream:
            stream.write(text)
    try:
        for row in cutplace.rows(_CIDS[key], source, on_error=mode):
            if isinstance(row, Exception):
                return "foreign:error-handed-out-as-an-item", [list(r) for r in rows], str(row)
            rows.append(row)
        return "ok", [list(r) for r in rows], None
    except m["errors"].DataFormatError as error:
        return "error", [list(r) for r in rows], str(error)
    except Exception as error:
        return "foreign:" + type(error).__name__, [list(r) for r in rows], repr(error)


def delimiter_name(delimiter):
    return {"any": "any", "\n": "lf", "\r": "cr", "\r\n": "crlf", None: "none"}[delimiter]


def judge_complete(text, widths, delimiter, part, case=None, via_path=False):
    """Judge one complete input by the statement. -> outcome kind"""
    via_path = via_path or (case and case.get("via_path")) or False
    if isinstance(via_path, str) and via_path.startswith("cid"):
        kind, rows, detail = run_reader_cid(text, widths, delimiter, via_path[4:] or None)
    else:
        kind, rows, detail = run_reader_path(text, widths, delimiter) if via_path else run_reader(text, widths, delimiter, True)
    part.transitions += 1
    part.validated += 1
    tag = "%s|%s%%s" % (delimiter_name(delimiter), ("declared-in-a-cid:" if via_path == "cid" else ("stream-handed-over-behind-a-title-line:" if via_path == "cid:@offset" else ("error-mode-%s:" % via_path[5:] if via_path[4:5] == "@" else "declared-in-a-cid-file-in-%s:" % via_path[4:]))) if isinstance(via_path, str) and via_path.startswith("cid") else ("file-opened-by-the-reader:" if via_path else ""))
    case = case or {"text": text, "widths": list(widths), "delimiter": delimiter, "via_path": via_path}
    total = sum(widths)
    if kind == "ok":
        if not fixedspec.rows_reproduce(text, widths, delimiter, rows):
            part.fail(tag % "rows-do-not-reproduce-input", case, "rows of declared widths whose concatenation with permitted delimiters equals the input, or DataFormatError", rows)
    elif kind == "error":
        if fixedspec.well_formed(text, total, delimiter):
            part.fail(tag % "well-formed-input-rejected", case, "accepted", detail)
    else:
        part.fail(tag % kind, case, "rows or DataFormatError", detail)
    return kind


def judge(case, part):
    part.evaluations += 1
    judge_complete(case["text"], case["widths"], case["delimiter"], part, case)


def enumerate_strings(item):
    widths, delimiter, max_length, alphabet = item[:4]
    via_path = len(item) > 4 and item[4]
    part = Part()
    total = sum(widths)
    outcomes = collections.Counter()
    for length in range(0, max_length + 1):
        for letters in itertools.product(alphabet, repeat=length):
            text = "".join(letters)
            kind = judge_complete(text, widths, delimiter, part, via_path=via_path)
            outcomes[kind] += 1
            part.evaluations += 1
    part.nontrivial += outcomes["error"] + outcomes["ok"]
    for kind, count in outcomes.items():
        part.outcome(kind)
    part.state(("enum", tuple(widths), delimiter))
    part.sample({"search": "bounded enumeration", "widths": list(widths), "delimiter": delimiter, "max length": max_length, "alphabet": alphabet, "outcomes": dict(outcomes)}, limit=1)
    return part


def fixpoint(item):
    widths, delimiter, alphabet, max_states = item
    part = Part()
    total = sum(widths)
    seen = set()
    frontier = collections.deque([("", fixedspec.greedy_start(), fixedspec.canonical_start())])
    longest = 0
    capped = False
    while frontier:
        prefix, greedy, canonical = frontier.popleft()
        # the prefix as a complete input
        judge_complete(prefix, widths, delimiter, part)
        part.evaluations += 1
        kind, rows, snap = run_reader(prefix, widths, delimiter, False)
        part.transitions += 1
        case = {"text": prefix, "widths": list(widths), "delimiter": delimiter, "more_input_follows": True}
        if kind == "error":
            # rejected before the end of input: no continuation may be well-formed (fixed delimiters: the unique decomposition,
            # which the greedy automaton follows; 'any': the canonical form)
            part.validated += 1
            if (canonical[0] if delimiter == "any" else greedy[0]) != "dead":
                part.fail("%s|rejected-early-although-a-well-formed-continuation-exists" % delimiter_name(delimiter), case, "keeps reading", snap)
            continue
        if kind != "blocked":
            part.fail("%s|reader-finished-or-failed-without-end-of-input:%s" % (delimiter_name(delimiter), kind), case, "blocked on read", snap)
            continue
        key = (snap, greedy, canonical, len(rows) if greedy[0] == "dead" else None)
        # rows already emitted are not part of the future, except through what the oracle will compare: the emitted
        # rows are a prefix of every later result, so only their relation to the unconsumed input matters (in snap)
        if key in seen:
            continue
        seen.add(key)
        part.states.add(hash(("fix", tuple(widths), delimiter, key)))
        longest = max(longest, len(prefix))
        if len(seen) > max_states:
            capped = True
            break
        for character in alphabet:
            frontier.append((prefix + character, fixedspec.greedy_step(greedy, character, total, delimiter), fixedspec.canonical_step(canonical, character, total, delimiter)))
    part.nontrivial += len(seen)
    if capped:
        part.note("fixpoint search capped")
    else:
        part.note("fixpoints reached")
    part.sample({"search": "fixpoint", "widths": list(widths), "delimiter": delimiter, "alphabet": alphabet, "product states": len(seen), "longest minimal input": longest, "capped": capped}, limit=1)
    return part


def mutated_files(item):
    """(3) Longer well-formed files with one character deleted, inserted or replaced at every offset."""
    widths, delimiter, records = item
    part = Part()
    total = sum(widths)
    letters = "abcdefghijklmnopqrstuvwxyz"
    body = ["".join(letters[(r * 7 + k) % 26] for k in range(total)) for r in range(records)]
    ends = {"any": ["\n", "\r", "\r\n"], None: [""]}.get(delimiter, [delimiter])
    bases = []
    for variant in range(len(ends)):
        text = ""
        for index, record in enumerate(body):
            text += record + ends[(index + variant) % len(ends)]
        bases.append(text)
        if delimiter is not None:
            bases.append(text[: len(text) - len(ends[(records - 1 + variant) % len(ends)])])  # without the final delimiter
    kinds = collections.Counter()
    for base in bases:
        kinds[judge_complete(base, widths, delimiter, part)] += 1
        part.evaluations += 1
        for offset in range(len(base) + 1):
            candidates = []
            if offset < len(base):
                candidates.append(base[:offset] + base[offset + 1:])
                for character in "x\r\n \x0c\u2028":
                    candidates.append(base[:offset] + character + base[offset + 1:])
            for character in "x\r\n \x0c\u2028":
                candidates.append(base[:offset] + character + base[offset:])
            for text in candidates:
                kinds[judge_complete(text, widths, delimiter, part)] += 1
                part.evaluations += 1
    part.nontrivial += sum(kinds.values())
    part.state(("mutated", tuple(widths), delimiter))
    part.sample({"search": "single-character mutations", "widths": list(widths), "delimiter": delimiter, "records": records, "base": bases[0], "outcomes": dict(kinds)}, limit=1)
    return part


def width_lists(tier):
    lists = [[a] for a in (1, 2, 3)] + [[a, b] for a in (1, 2, 3) for b in (1, 2, 3)] + [[a, b, c] for a in (1, 2, 3) for b in (1, 2, 3) for c in (1, 2, 3)]
    if tier == "quick":
        return [[1], [2], [3], [1, 1], [1, 2], [2, 1], [2, 2], [3, 1], [1, 3], [1, 1, 1], [1, 2, 1], [2, 1, 2]]
    return lists


def run(ctx):
    quick = ctx.tier == "quick"
    max_length = 8 if quick else 10
    items = [(widths, delimiter, max_length, "ab\r\n") for widths in width_lists(ctx.tier) for delimiter in DELIMITERS]
    items.sort(key=lambda i: sum(i[0]))
    ctx.pmap(MOD, "enumerate_strings", items, label="C13 enumeration")
    # the same through files the reader opens itself (path source): shorter strings, a few width lists
    path_length = 5 if quick else 7
    path_items = [(widths, delimiter, path_length, "ab\r\n", True) for widths in ([1], [2], [1, 2], [2, 1, 1]) for delimiter in DELIMITERS]
    ctx.pmap(MOD, "enumerate_strings", path_items, label="C13 enumeration through files")
    # and through cutplace.rows under a CID that declares widths and line delimiter (the setting has to reach the reader unchanged)
    cid_items = [(widths, delimiter, path_length + 1, "ab\r\n", "cid") for widths in ([1], [2], [1, 2], [2, 1, 1]) for delimiter in DELIMITERS]
    # the same from files in encodings whose characters take several bytes
    cid_items += [(widths, delimiter, 4 if quick else 6, alphabet, "cid:" + encoding) for widths in ([1], [3], [1, 2]) for delimiter in DELIMITERS
                  for encoding, alphabet in (("utf-16", "ab\r\n"), ("utf-8", "a\xe4\r\n"), ("utf-32", "a\r\n"))]
    cid_items += [(widths, delimiter, 5 if quick else 7, "ab\r\n", "cid:@" + mode) for mode in ("continue", "yield") for widths in ([2], [1, 2]) for delimiter in DELIMITERS]
    cid_items += [(widths, delimiter, 5 if quick else 7, "ab\r\n", "cid:@offset") for widths in ([1], [2, 1], [3]) for delimiter in DELIMITERS]
    ctx.pmap(MOD, "enumerate_strings", cid_items, label="C13 enumeration through CIDs")
    fix_lists = [[1], [2], [1, 1], [2, 1], [1, 2], [3], [1, 1, 1], [2, 2], [3, 1], [1, 3], [1, 2, 1], [2, 1, 2], [3, 3]] if quick else width_lists("thorough")
    fix_items = []
    for widths in fix_lists:
        alphabet = "ab\r\n" if sum(widths) <= (4 if quick else 6) else "a\r\n"
        for delimiter in DELIMITERS:
            fix_items.append((widths, delimiter, alphabet, 120000))
    fix_items.sort(key=lambda i: -sum(i[0]))
    ctx.pmap(MOD, "fixpoint", fix_items, label="C13 fixpoint")
    mutation_items = [(widths, delimiter, records) for widths in ([3, 2, 4], [5], [2, 2, 2, 2], [10, 1], [1, 6]) for delimiter in DELIMITERS for records in ((4,) if quick else (3, 6, 9))]
    ctx.pmap(MOD, "mutated_files", mutation_items, label="C13 mutations")
    ctx.exhaustive = "fixpoint search capped" not in ctx.total.notes
    ctx.bound = {"bounded enumeration": "all strings over {a,b,CR,LF} up to length %d x %d width lists x 5 delimiter settings" % (max_length, len(width_lists(ctx.tier))),
                 "fixpoint search": "%d (width list, delimiter) configurations explored to the fixpoint of the product (reader frame state x specification automata): all inputs of every length over the alphabet ({a,CR,LF} when the record is wider than %d)" % (len(fix_items), 4 if quick else 6)}
    ctx.bound["files opened by the reader"] = "all strings up to length %d x 4 width lists x 5 delimiter settings stored in a file and read through its path" % path_length
    ctx.bound["declared in a CID"] = "all strings up to length %d x 4 width lists x 5 line delimiter settings read through cutplace.rows under a fixed CID" % (path_length + 1)
    ctx.bound["single-character mutations"] = "%d (width list, delimiter, record count) files: every deletion, insertion and replacement (x, CR, LF, blank, FF, LS) at every offset, with and without the final delimiter" % len(mutation_items)
    ctx.rule = ("(1) plain enumeration; (3) every single-character mutation of longer well-formed files; (2) BFS over input prefixes, one character at a time, state = snapshot of the fixed_rows generator frame at the blocked read (call-site lines, "
                "all locals but message-only ones, push-back, unconsumed characters) x greedy and canonical specification states; every visited prefix is also judged as a complete "
                "input; oracle: returned rows must have the declared widths and reproduce the input with some permitted delimiters, an error is only allowed if the input is not "
                "well-formed (unique decomposition for fixed delimiters; canonical form under 'any'); non-trivial = every judged input (each is either accepted with rows or rejected)")
    ctx.assumptions = ["ignored frame locals: the Location counters (message-only), the stream objects and loop temporaries that are reassigned before use",
                       "under the setting 'any' inputs whose records themselves contain CR / LF may be accepted or rejected, provided returned rows reproduce the input (CR LF can be read in two ways); with one fixed delimiter or none the decomposition is unique and every decomposable input must be accepted"]
