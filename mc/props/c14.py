"""C14 — a validating writer emits only conforming rows; its output validates again.

LTS: writer machine, state = CID check bookkeeping + writer location + header phase; operations
write_row(shape) and close.  Explorer (H): BFS over row sequences with product-state merging; the
output stream is append-only and compared per transition as a delta.  Oracle: row model for the
verdicts, rendering rules of the statement for the emitted text, and a final read-back under a
fresh CID.
"""
import csv
import io
import os

from mc import engine, harness, readermachine
from mc.core import Part
from mc.models import rowmodel

MOD = "mc.props.c14"
LINE_ENDS = {"lf": ["\n"], "cr": ["\r"], "crlf": ["\r\n"], "any": ["\n", "\r", "\r\n"], "none": [""]}


def configs(tier):
    result = []
    for preset in ("delimited", "fixed"):
        for header in (0, 1):
            for line_delimiter in ("lf", "crlf", "any", "cr") + (("none",) if preset == "fixed" else ()):
                for fields, checks in (
                    (["id", "name", "kind"], [["uniq", "IsUnique", "id"], ["dc", "DistinctCount", "kind < 3"]]),
                    (["name", "amount"], []),
                    (["kind", "id"], [["dc", "DistinctCount", "kind >= 2"]]),
                    (["note", "kind"], []),  # every field may be empty
                ):
                    if tier == "quick" and header == 1 and line_delimiter in ("cr", "any") and not checks:
                        continue
                    result.append({"preset": preset, "header": header, "fields": fields, "checks": checks, "line_delimiter": line_delimiter})
    # allowed characters restricted to printable ASCII: white-space-like characters at either end of a value are characters like any other
    for preset in ("fixed", "delimited"):
        result.append({"preset": preset, "header": 0, "fields": ["id", "name"], "checks": [], "line_delimiter": "lf", "allowed": [[32, 126, False]]})
    # a free-text field in the last column: its values may end in white space or consist of it
    for line_delimiter in ("lf", "crlf"):
        result.append({"preset": "delimited", "header": 0, "fields": ["id", "name"], "checks": [["uniq", "IsUnique", "id, name"]], "line_delimiter": line_delimiter})
    # other relations of quote and escape character (the output is judged by reading it back)
    for quote, escape in (("\\", "\\"), ("'", "\\"), ('"', "\\"), ("'", '"')):
        result.append({"preset": "delimited", "header": 0, "fields": ["id", "name", "kind"], "checks": [["uniq", "IsUnique", "id"]], "line_delimiter": "lf", "dialect": [quote, escape]})
    return result


def cid_rows_for(config, decls):
    extra = [("Quote character", config["dialect"][0]), ("Escape character", config["dialect"][1])] if config.get("dialect") else []
    return harness.cid_rows(config["preset"], decls, config["checks"], config["header"], line_delimiter=config["line_delimiter"], extra=extra, allowed=config.get("allowed"))


def make_cid(config, decls):
    return harness.make_cid(cid_rows_for(config, decls))


def shapes_for(config):
    delimited = dict(config, preset="delimited")
    decls = readermachine.decls_for(delimited)
    shapes = readermachine.row_shapes(delimited, decls)
    if "id" in config["fields"]:
        base = dict(shapes)["ok0"]
        duplicate = list(base)
        other = config["fields"].index("name") if "name" in config["fields"] else None
        if other is not None:
            duplicate[other] = "zz"
        shapes.append(("dup-of-ok0", duplicate))
        if "kind" in config["fields"]:
            # a duplicate that carries a kind no written row has: rejected rows must not count for later checks either
            other_kind = list(duplicate)
            other_kind[config["fields"].index("kind")] = ""
            shapes.append(("dup-of-ok0-with-another-kind", other_kind))
    if config["preset"] == "fixed" and "name" in config["fields"] and "id" in config["fields"]:
        # the same key with and without trailing blanks: equal once stored in fixed-width data
        base = dict(shapes)["ok0"]
        column = config["fields"].index("id")
        variant = list(base)
        variant[column] = base[column] + " "
        shapes.append(("ok0-key-with-trailing-blank", variant))
    if config["preset"] == "delimited" and "name" in config["fields"]:
        # an accepted cell holding a line break of another style than the declared line delimiter
        row = list(dict(shapes)["ok1"])
        row[config["fields"].index("name")] = "a\r\n"
        shapes.append(("ok1-name-ends-in-crlf", row))
        # characters that str.splitlines() takes for line boundaries but delimited data does not (form feed, line separator)
        row = list(dict(shapes).get("ok2", dict(shapes)["ok0"]))
        row[config["fields"].index("name")] = "a\x0c\u2028"
        shapes.append(("ok2-name-with-form-feed-and-line-separator", row))
    if config.get("allowed") and "name" in config["fields"]:
        base = dict(shapes)["ok1"]
        column = config["fields"].index("name")
        for label, value in (("tab-behind", "c\t"), ("nel-in-front", "\x85c"), ("nbsp-behind", "c\xa0"), ("tab-inside", "a\tb"), ("plain", "ab")):
            row = list(base)
            row[column] = value
            shapes.append(("name-" + label, row))
    if config["preset"] == "delimited" and config["fields"][-1] == "name":
        base = dict(shapes)["ok1"]
        for label, value in (("ends-in-blank", "c "), ("blank-only", " "), ("ends-in-tab", "c\t"), ("starts-with-blank", " c")):
            shapes.append(("ok1-last-cell-" + label, list(base[:-1]) + [value]))
    return [s for s in shapes if s[0] != "empty"] + [("empty", [])]


def _encodable(text, encoding):
    try:
        text.encode(encoding)
        return True
    except UnicodeEncodeError:
        return False


def _unencodable_row(config, rows):
    """An accepted row shape with a fresh key whose free-text cell holds a character outside cp1252 (the default encoding), or None."""
    fields = config["fields"]
    text_field = next((name for name in ("name", "note") if name in fields), None)
    if text_field is None:
        return None
    row = [readermachine.CATALOGUE[name][2][0] for name in fields]
    row[fields.index(text_field)] = "\u0141"
    if "id" in fields:
        row[fields.index("id")] = "77"
    return row


def header_row(decls):
    return ["h" * 1 for _ in decls]


def judge(case, part):
    import cutplace

    m = harness.modules()
    errors = m["errors"]
    config = case["config"]
    decls = readermachine.decls_for(config)
    fixed = decls[0]["fmt"] == "fixed"
    tag = "%s|%s%s|%%s" % (config["preset"], config["line_delimiter"], ",quote=%s,escape=%s" % tuple(config["dialect"]) if config.get("dialect") else "")
    part.evaluations += 1
    cid = make_cid(config, decls)
    target = io.StringIO(newline="")
    try:
        writer = cutplace.Writer(cid, target)
    except Exception as error:
        part.fail(tag % ("writer-not-created:" + type(error).__name__), case, "writer", repr(error))
        return None
    model = rowmodel.Run(decls, config["checks"], config["header"], None)
    expected_back = []
    rows = [header_row(decls)] * config["header"] + [list(r) for r in case["rows"]]
    rejected_any = False
    for number, row in enumerate(rows, 1):
        before = target.getvalue()
        # in fixed-width data the checks see the padded values (what a reader of the output will see)
        seen_by_model = [c.ljust(d["width"]) for c, d in zip(row, decls)] if fixed and len(row) == len(decls) else row
        event = model.feed(seen_by_model)
        try:
            writer.write_row(list(row))
            outcome = "written"
        except errors.CutplaceError as error:
            outcome = "rejected:" + type(error).__name__
        except Exception as error:
            outcome = "foreign:" + type(error).__name__
        delta = target.getvalue()[len(before):]
        part.transitions += 1
        part.validated += 1
        part.outcome(outcome.split(":")[0])
        narrowed = dict(case, at_row=number)
        if event is not None and event[0] == "rej":
            rejected_any = True
            if event[1].get("grey"):
                return None
            if not outcome.startswith("rejected"):
                part.fail(tag % ("row-that-must-be-rejected:%s:%s" % (event[1]["reason"], outcome)), narrowed, event[1], [outcome, delta])
            elif delta != "":
                part.fail(tag % "text-emitted-for-rejected-row", narrowed, "", delta)
            if outcome.startswith("foreign") or outcome == "written":
                return None
            continue
        if outcome != "written":
            part.fail(tag % ("conforming-row-not-written:" + outcome), narrowed, "written", [outcome, row])
            return None
        # rendering of the accepted row
        stored = [c.ljust(d["width"]) for c, d in zip(row, decls)] if fixed else list(row)
        ends = LINE_ENDS[config["line_delimiter"]]
        end = next((e for e in sorted(ends, key=len, reverse=True) if delta.endswith(e)), None)
        if end is None:
            part.fail(tag % "line-not-ended-by-declared-delimiter", narrowed, ends, delta)
        else:
            body = delta[: len(delta) - len(end)]
            if fixed:
                if body != "".join(stored):
                    part.fail(tag % "fixed-row-rendering", narrowed, "".join(stored), body)
            elif not config.get("dialect"):
                parsed = list(csv.reader(io.StringIO(body, newline=""), delimiter=",", quotechar='"', doublequote=True, strict=True))
                if parsed != [stored] and not (stored == [] and parsed == []):
                    part.fail(tag % "delimited-row-does-not-parse-back", narrowed, stored, parsed)
                if ("\n" in body or "\r" in body) and not any("\n" in c or "\r" in c for c in stored):
                    part.fail(tag % "stray-line-break-in-row", narrowed, stored, delta)
        if number > config["header"]:
            expected_back.append(stored)
    written = target.getvalue()
    snapshot_key = (readermachine.check_snapshot(cid), writer.location.line if writer.location is not None else None)
    # close: end-of-data verdict
    try:
        writer.close()
        closed = None
    except errors.CutplaceError as error:
        closed = type(error).__name__
    except Exception as error:
        closed = "foreign:" + type(error).__name__
    part.transitions += 1
    part.validated += 1
    expected_close = model.close()
    if (closed is None) != (expected_close is None) or (closed is not None and closed != "CheckError"):
        part.fail(tag % "close-verdict", case, expected_close, closed)
    if rejected_any or expected_close is not None:
        part.nontrivial += 1
    # the same rows through write_rows() in one single call (header rows included): it stops at the first rejected row,
    # and what it has emitted by then is what the row-by-row writer emitted for those rows
    emitted_by_row = case.get("_emitted", None)
    bulk_target = io.StringIO(newline="")
    bulk_raised = None
    try:
        bulk_writer = cutplace.Writer(make_cid(config, decls), bulk_target)
        try:
            bulk_writer.write_rows([list(r) for r in rows])
        except errors.CutplaceError as error:
            bulk_raised = type(error).__name__
        try:
            bulk_writer.close()
        except errors.CutplaceError:
            pass
    except Exception as error:
        bulk_raised = "foreign:" + type(error).__name__
    part.transitions += 1
    part.validated += 1
    if not rejected_any:
        if bulk_raised is not None or bulk_target.getvalue() != written:
            part.fail(tag % "write_rows-differs-from-row-by-row", case, {"raised": None, "text": written}, {"raised": bulk_raised, "text": bulk_target.getvalue()})
    elif bulk_raised is None or bulk_raised.startswith("foreign") or not written.startswith(bulk_target.getvalue()):
        part.fail(tag % "write_rows-with-a-rejected-row", case, "a cutplace error at the first rejected row, nothing emitted beyond it", {"raised": bulk_raised, "text": bulk_target.getvalue()})
    # the same rows written to a file the writer opens itself, followed by a well-shaped row that the declared encoding cannot hold:
    # that row is rejected without leaving anything behind, and after close() the file holds exactly what the stream held
    encoding = cid.data_format.encoding
    if all(_encodable(cell, encoding) for row in rows for cell in row if isinstance(cell, str)):
        path = os.path.join(readermachine.tmpdir(), "c14_target_%d.txt" % os.getpid())
        outcomes = []
        try:
            file_writer = cutplace.Writer(make_cid(config, decls), path)
            for row in rows + ([_unencodable_row(config, case["rows"])] if _unencodable_row(config, case["rows"]) else []):
                try:
                    file_writer.write_row(list(row))
                    outcomes.append("written")
                except errors.CutplaceError as error:
                    outcomes.append("rejected")
            try:
                file_writer.close()
                outcomes.append(None)
            except errors.CutplaceError as error:
                outcomes.append(type(error).__name__)
            with open(path, "r", newline="", encoding=encoding) as stored:
                in_file = stored.read()
        except Exception as error:
            in_file = "foreign:" + repr(error)
        part.transitions += 1
        part.validated += 1
        if in_file != written:
            part.fail(tag % "file-target-differs-from-stream-target", case, written, {"file": in_file, "outcomes": outcomes})
        elif not _unencodable_row(config, case["rows"]) and outcomes[-1] != closed:
            # (with the extra row the verdicts are not compared: the checks have seen that row before the encoder refused it, which the statement does not speak about)
            part.fail(tag % "file-target-close-verdict", case, closed, outcomes)
        elif _unencodable_row(config, case["rows"]) and outcomes[-2] != "rejected":
            part.fail(tag % "unencodable-row-not-rejected", case, "rejected", outcomes)
    if len(rows) <= 2:
        # the CID given as the path of a CID file instead of a Cid object: the same writer, the same output
        cid_path = os.path.join(readermachine.tmpdir(), "c14_cid_%d.csv" % os.getpid())
        with open(cid_path, "w", newline="", encoding="utf-8") as cid_stream:
            csv.writer(cid_stream).writerows(cid_rows_for(config, decls))
        by_path_target = io.StringIO(newline="")
        by_path = None
        try:
            path_writer = cutplace.Writer(cid_path, by_path_target)
            for row in rows:
                try:
                    path_writer.write_row(list(row))
                except errors.CutplaceError:
                    pass
            try:
                path_writer.close()
            except errors.CutplaceError:
                pass
        except Exception as error:
            by_path = "%s: %s" % (type(error).__name__, error)
        part.transitions += 1
        part.validated += 1
        if by_path is not None or by_path_target.getvalue() != written:
            part.fail(tag % "writer-given-the-cid-as-a-path", case, written, by_path if by_path is not None else by_path_target.getvalue())
    # read back under a fresh CID
    fresh = make_cid(config, decls)
    back, raised = [], None
    try:
        for item in cutplace.rows(fresh, harness.NamedStringIO(written, "written.txt"), on_error="yield"):
            back.append(harness.describe_error(item)["text"] if isinstance(item, Exception) else list(item))
    except errors.CutplaceError as error:
        raised = type(error).__name__
    except Exception as error:
        raised = "foreign:" + type(error).__name__
    part.transitions += 1
    part.validated += 1
    if back != expected_back:
        part.fail(tag % "read-back-differs", case, expected_back, back)
    # the reader sees padded values, so its distinct count can only be compared when it equals the writer's view
    if raised is not None and not (raised == "CheckError" and expected_close is not None):
        part.fail(tag % ("read-back-raised-" + raised), case, expected_close, raised)
    return (snapshot_key, (model.row_number, model.accepted, model.rejected, model.check_state()))


def explore(item):
    config, depth, merge = item
    part = Part()
    shapes = shapes_for(config)
    rows = dict(shapes)
    names = [name for name, _ in shapes]

    def run(history):
        return judge({"config": config, "rows": [rows[name] for name in history]}, part)

    result = engine.bfs(run, names, part, max_depth=depth, merge=merge, max_states=5000)
    part.sample({"config": config, "row shapes": shapes[:5], "states": result["states"], "transitions": result["transitions"], "depth": result["depth_completed"]}, limit=1)
    return part


def run(ctx):
    quick = ctx.tier == "quick"
    items = []
    for config in configs(ctx.tier):
        depth = (5 if config["checks"] else 4) if quick else (6 if len(config["checks"]) == 2 else 8)
        items.append((config, depth, True))
    if not quick:
        for config in configs("quick")[::3]:
            items.append((config, 4, False))
    items.sort(key=lambda item: -item[1] * (1 + len(item[0]["checks"])))
    ctx.bound = {"configurations": len(items), "formats": ["delimited", "fixed"], "header": "0..1", "line delimiters": ["lf", "cr", "crlf", "any"],
                 "depth": "quick 4-5 rows, thorough 6-8 rows with merging plus unmerged depth 4", "row shapes": "accepted rows, duplicate key, one bad cell per column, two bad cells, too long for the width, one item short / long, empty row"}
    ctx.rule = ("BFS over row sequences with product-state merging (check objects + writer location x model); every write is compared as a stream delta; after each sequence the writer is "
                "closed (end verdict) and the output is read back under a fresh CID; non-trivial = sequence with a rejected row or failing end verdict")
    ctx.assumptions = ["header rows are well-shaped (the statement is silent about malformed header rows)",
                       "under 'any' each of LF, CR, CRLF is a permitted line end; delimited rows are judged by parsing the delta back with Python's csv module configured independently"]
    ctx.pmap(MOD, "explore", items, label="C14")
