"""C15 — ODS sheets are read as the logical table they contain.

Tables of text cells are written by the independent ODF producer (mc/models/odf.py) with every
optional encoding feature switched on or off (deviation-bounded over the switches) and read back
with rowio.ods_rows and cutplace.rows; malformed containers must fail with DataFormatError.
"""
import io
import itertools
import os
import zipfile

from mc import engine, harness, readermachine
from mc.core import Part
from mc.models import odf

MOD = "mc.props.c15"
ALPHABET = ["", "a", "b", "a b", "a  b", " a", "a<&>\"", "ä€", "a\tb", "a\nb", "b ", "  ", "ab\n\ncd", "\nb", "\n", "b\n", "\n\ne", "\t", " \n ", "a\x85\u2028\u2029b"]  # the last: line boundaries for str.splitlines(), ordinary characters for a sheet
SMALL = ["", "a", "b", "a b", " a"]
SWITCHES = [
    {"col_runs": True}, {"row_runs": True}, {"all_spaces_as_s": True}, {"explicit_c": True}, {"paragraphs": True}, {"span_at": 1, "spans": "head"}, {"span_at": 2, "spans": "tail"},
    {"empty_as_p": True}, {"encoding": "UTF-16"}, {"filler": True}, {"span_range": [1, 5]}, {"span_range": [0, 4], "span_nested": True}, {"annotations": True}, {"pretty": True},
    {"span_range": [0, 9], "link": True},
]
STRUCTURED = [
    [["a", "a", "a", "b"], ["a", "a", "a", "b"], ["b", "", "", ""]],
    [["", "", ""], ["", "", ""], ["x", "", "x"]],
    [["a  b", " a", "b "], ["a\tb", "a\nb", "a<&>\""], ["ä€", "ä€", "ä€"]],
    [["ab cd", "abcd", "a b c  d"], ["ab cd", "abcd", "a b c  d"], ["ab cd", "abcd", "a b c  d"], ["z", "z", "z"]],
    [["a"] * 8, ["b"] * 8, ["a"] * 8, ["a"] * 8, ["", "", "", "", "", "", "", "a"], ["ab\n\ncd", "  ", "", "a", "a", "", "", ""]],
    [[], ["a"], []],
    [],
    [["only"]],
    [["a", "b"], ["a", "b"], ["a", "b"], ["a", "b"], ["a", "b"], ["a", "b"]],
    [["line1\nline2", "line1\nline2"], ["x y", "x  y"]],
    [["\nb", "\n", "b\n"], ["\n\ne", "a\n\n", "\n \n"]],
    [["\tb", "b\t", "\t"], [" \tb ", "a \n b", "  \n"]],
    [["big  red box", "very  fragile, handle with care", "a\tb\tc d"], ["x  y  z", "ab\ncd\nef", "  lead  and  trail  "]],
]


def path_for(name):
    return os.path.join(readermachine.tmpdir(), "%s_%d.ods" % (name, os.getpid()))


def features_name(features):
    return ",".join(sorted("%s=%s" % kv for kv in features.items())) or "plain"


def read_real(path, sheet):
    m = harness.modules()
    try:
        return "rows", [list(row) for row in list(m["rowio"].ods_rows(path, sheet))]
    except m["errors"].DataFormatError as error:
        return "DataFormatError", str(error)
    except Exception as error:
        return "raised-" + type(error).__name__, repr(error)


def judge(case, part):
    """case: {"sheets": [table, ...], "sheet": k, "features": {...}}"""
    import cutplace

    if "kind" in case:  # replay of a fault case
        return fault_case(case, part)
    m = harness.modules()
    sheets, sheet, features = case["sheets"], case["sheet"], case.get("features", {})
    if "encoding" in features and features["encoding"] == "ISO-8859-1":
        try:
            "".join(c for t in sheets for r in t for c in r).encode("latin-1")
        except UnicodeEncodeError:
            return
    path = path_for("t")
    odf.write_ods(path, sheets, features)
    part.evaluations += 1
    part.transitions += 2
    expected = [list(row) for row in sheets[sheet - 1]]
    # self-check of the producer with the independent decoder
    if odf.read_ods(path, sheet) != expected:
        raise RuntimeError("ODF producer self-check failed for %r %r" % (expected, features))
    kind, observed = read_real(path, sheet)
    part.validated += 1
    part.outcome(kind)
    part.state((kind, str(observed)))
    special = any(c != "" and (c != c.strip() or "  " in c or "\t" in c or "\n" in c) for r in expected for c in r)
    if special or features:
        part.nontrivial += 1
    tag = "%s|%%s" % features_name(features)
    if kind != "rows":
        part.fail(tag % ("reading-failed:" + kind), case, expected, observed)
        return
    if observed != expected:
        collapsed = [row for index, row in enumerate(expected) if index == 0 or row != expected[index - 1]]
        if features.get("row_runs") and observed == collapsed:
            what = "row-runs-not-expanded"
        elif len(observed) != len(expected):
            what = "row-count"
        elif any(len(a) != len(b) for a, b in zip(observed, expected)):
            what = "cell-count"
        elif any(cell is None for row in observed for cell in row):
            what = "cell-is-None"
        else:
            what = "cell-text"
        part.fail(tag % ("table-differs:" + what), case, expected, observed)
        return
    if case.get("api", True):
        # the document as an open binary stream, read twice in a row without rewinding it by hand, and as a stream in memory
        try:
            with open(path, "rb") as stream:
                first = [list(row) for row in m["rowio"].ods_rows(stream, sheet)]
                second = [list(row) for row in m["rowio"].ods_rows(stream, sheet)]
            with open(path, "rb") as stream:
                memory = io.BytesIO(stream.read())
            third = [list(row) for row in m["rowio"].ods_rows(memory, sheet)]
            fourth = [list(row) for row in m["rowio"].ods_rows(memory, sheet)]
            streamed = [first, second, third, fourth]
        except Exception as error:
            streamed = "raised-%s: %s" % (type(error).__name__, error)
        part.transitions += 4
        part.validated += 1
        if streamed != [expected] * 4:
            part.fail(tag % "stream-source-differs", case, expected, streamed)
    # through cutplace.rows under an all-Text CID with Sheet k (rectangular tables with at least one column)
    widths = {len(row) for row in expected}
    if len(widths) == 1 and 0 not in widths and case.get("api", True):
        width = widths.pop()
        rows = [["D", "Format", "ODS"], ["D", "Sheet", str(sheet)]] + [["F", "c%d" % i, "", "X", "", "Text", ""] for i in range(width)]
        try:
            back = [list(row) for row in list(cutplace.rows(harness.make_cid(rows), path))]
        except Exception as error:
            back = "raised-%s: %s" % (type(error).__name__, error)
        part.transitions += 1
        part.validated += 1
        if back != expected:
            part.fail(tag % "cutplace.rows-differs", case, expected, back)
        # the document as a stream in memory that carries the name of another, existing document: the stream is what is read
        other_path = path_for("other")
        odf.write_ods(other_path, [[["other", "document"]]] * len(sheets), {})
        try:
            with open(path, "rb") as stream:
                named = io.BytesIO(stream.read())
            named.name = other_path
            back = [list(row) for row in list(cutplace.rows(harness.make_cid(rows), named))]
        except Exception as error:
            back = "raised-%s: %s" % (type(error).__name__, error)
        part.transitions += 1
        part.validated += 1
        if back != expected:
            part.fail(tag % "cutplace.rows-from-a-named-stream-differs", case, expected, back)


def fault_case(case, part):
    m = harness.modules()
    part.evaluations += 1
    part.nontrivial += 1
    path = path_for("fault")
    kind = case["kind"]
    table = [["a", "b", "b"], ["a", "b", "b"], ["c  d", "", "e"]]
    features = {"col_runs": True, "row_runs": True}
    sheet = 1
    if kind == "not-a-zip":
        with open(path, "wb") as stream:
            stream.write(b"a,b,c\n1,2,3\n" * case.get("repeat", 1))
    elif kind == "no-content-xml":
        odf.write_ods(path, [table], features, without_content=True)
    elif kind == "xml-cut":
        content = odf.content_xml([table], features)
        odf.write_ods(path, [table], features, raw_content=content[: case["at"]])
    elif kind == "bad-column-count":
        odf.write_ods(path, [table], {"col_runs": True, "col_count_text": case["text"]})
    elif kind == "bad-row-count":
        odf.write_ods(path, [table], {"row_runs": True, "row_count_text": case["text"]})
    elif kind == "absurd-content":
        # counts no table can hold and nesting deeper than any document: still problems of the data, to be reported as such
        content = odf.content_xml([[["a  b", "c"]]], {"all_spaces_as_s": True, "explicit_c": True}).decode("utf-8")
        if case["what"] == "blank-count":
            content = content.replace('text:c="2"', 'text:c="99999999999999999999"')
        elif case["what"] == "column-count":
            content = content.replace("<table:table-cell>", '<table:table-cell table:number-columns-repeated="99999999999999999999">', 1)
        else:
            content = content.replace("<text:p>c</text:p>", "<text:p>" + "<text:span>" * 3000 + "c" + "</text:span>" * 3000 + "</text:p>")
        assert content != odf.content_xml([[["a  b", "c"]]], {"all_spaces_as_s": True, "explicit_c": True}).decode("utf-8"), case
        odf.write_ods(path, [[["a  b", "c"]]], {}, raw_content=content.encode("utf-8"))
    elif kind == "missing-sheet":
        odf.write_ods(path, [table] * case["sheets"], dict(features, sheet_names=case["names"]) if case.get("names") else features)
        sheet = case["sheet"]
    elif kind == "flip":
        # one byte of the archive inverted: inside the compressed content.xml the document cannot be read any more
        import zipfile

        odf.write_ods(path, [table], features)
        with open(path, "rb") as stream:
            content = stream.read()
        with zipfile.ZipFile(io.BytesIO(content)) as archive:
            info = archive.getinfo("content.xml")
        name_length, extra_length = int.from_bytes(content[info.header_offset + 26:info.header_offset + 28], "little"), int.from_bytes(content[info.header_offset + 28:info.header_offset + 30], "little")
        start = info.header_offset + 30 + name_length + extra_length
        must_fail = start <= case["at"] < start + info.compress_size
        with open(path, "wb") as stream:
            stream.write(content[: case["at"]] + bytes([content[case["at"]] ^ 0xFF]) + content[case["at"] + 1:])
    elif kind == "truncate":
        odf.write_ods(path, [table], features)
        with open(path, "rb") as stream:
            content = stream.read()
        with open(path, "wb") as stream:
            stream.write(content[: case["at"]])
    if kind == "truncate" and readermachine.archive_still_readable(path):
        part.note("truncations that left the archive fully readable (not judged)")
        return
    outcome, detail = read_real(path, sheet)
    part.transitions += 1
    part.validated += 1
    part.outcome("fault:" + outcome)
    if kind == "flip" and not must_fail and outcome == "rows":
        return  # the damage sits where the reader does not look
    if kind == "flip" and outcome == "rows" and readermachine.archive_still_readable(path):
        # the inverted byte holds only the unused bits behind the end of the compressed stream: every member still reads completely
        # with a matching checksum, so nothing a reader sees has changed
        part.note("inverted bytes that left the archive fully readable (not judged)")
        return
    if outcome != "DataFormatError":
        what = case.get("text", "") or case.get("what", "")
        part.fail("fault:%s%s|%s" % (kind, (":" + what) if what else "", "read-without-error" if outcome == "rows" else outcome), case, "DataFormatError", detail)
        return
    # the same source through the validating reader, in the modes that go on after a rejected row: a source that cannot be read is no rejected row
    import cutplace

    errors = m["errors"]
    for mode in ("continue", "yield"):
        cid = harness.make_cid([["D", "Format", "ODS"], ["D", "Sheet", str(sheet)], ["F", "a", "", "X"], ["F", "b", "", "X"], ["F", "c", "", "X"]])
        part.transitions += 1
        part.validated += 1
        try:
            items = list(cutplace.rows(cid, path, on_error=mode))
            observed = "read-without-error:%d-items" % len(items)
        except errors.DataFormatError:
            observed = "DataFormatError"
        except Exception as error:
            observed = type(error).__name__
        if observed != "DataFormatError":
            what = case.get("text", "") or case.get("what", "")
            part.fail("fault:%s%s|reader-on-error-%s|%s" % (kind, (":" + what) if what else "", mode, observed.split(":")[0]), dict(case, mode=mode), "DataFormatError", observed)


def work(item):
    part = Part()
    for case in item:
        if "kind" in case:
            fault_case(case, part)
        else:
            judge(case, part)
    part.sample(item[len(item) // 3], limit=1)
    return part


def switch_sets(limit):
    sets = [{}]
    for count in range(1, limit + 1):
        for combo in itertools.combinations(range(len(SWITCHES)), count):
            merged = {}
            keys = set()
            clash = False
            for index in combo:
                if keys & set(SWITCHES[index]):
                    clash = True
                keys |= set(SWITCHES[index])
                merged.update(SWITCHES[index])
            if not clash:
                sets.append(merged)
    return sets


def small_tables(alphabet, shapes):
    tables = []
    for rows, columns in shapes:
        for combo in itertools.product(alphabet, repeat=rows * columns):
            tables.append([list(combo[r * columns:(r + 1) * columns]) for r in range(rows)])
    return tables


def run(ctx):
    quick = ctx.tier == "quick"
    cases = []
    shapes = [(1, 1), (1, 2), (2, 1), (1, 3), (3, 1), (2, 2)] if quick else [(1, 1), (1, 2), (2, 1), (1, 3), (3, 1), (2, 2), (2, 3), (3, 2)]
    for table in small_tables(SMALL, shapes):
        cases.append({"sheets": [table], "sheet": 1, "features": {}, "api": len(table) * len(table[0]) <= 2})
        cases.append({"sheets": [table], "sheet": 1, "features": {"col_runs": True, "row_runs": True}, "api": False})
    for table in small_tables(ALPHABET, [(1, 1), (1, 2), (2, 1)] if quick else [(1, 1), (1, 2), (2, 1), (2, 2), (1, 3)]):
        cases.append({"sheets": [table], "sheet": 1, "features": {}, "api": len(table[0]) == 1})
    switch_limit = 3 if quick else len(SWITCHES)
    for features in switch_sets(switch_limit):
        for table in STRUCTURED:
            cases.append({"sheets": [table], "sheet": 1, "features": features})
    for features in ({}, {"encoding": "ISO-8859-1"}, {"encoding": "UTF-16", "col_runs": True}):
        for count in (1, 2, 3):
            for sheet in range(1, count + 1):
                sheets = [[["sheet%d" % (n + 1), "x"], ["a  b", ""]] for n in range(count)]
                cases.append({"sheets": sheets, "sheet": sheet, "features": features})
    faults = [{"kind": "not-a-zip"}, {"kind": "not-a-zip", "repeat": 200}, {"kind": "no-content-xml"}]
    content = odf.content_xml([[["a", "b", "b"], ["a", "b", "b"], ["c  d", "", "e"]]], {"col_runs": True, "row_runs": True})
    boundaries = sorted({i for i, ch in enumerate(content) if ch in b"<"} | {i + 1 for i, ch in enumerate(content) if ch in b">"})
    for at in boundaries:
        if 0 < at < len(content):
            faults.append({"kind": "xml-cut", "at": at})
    for text in ("0", "-1", "x", "1.5", "", "1e2", " ", "--1", "+-1", "-", "+", "0x2", "1 2", "1_0x", "\u00b2", "1\u00b2", "\u2460", "\u2082", "\u0663x", "-0", "00", "NaN", "1,0"):
        faults.append({"kind": "bad-column-count", "text": text})
        faults.append({"kind": "bad-row-count", "text": text})
    for what in ("blank-count", "column-count", "nested-spans"):
        faults.append({"kind": "absurd-content", "what": what})
    for sheets in (1, 2, 3):
        faults.append({"kind": "missing-sheet", "sheets": sheets, "sheet": sheets + 1})
        faults.append({"kind": "missing-sheet", "sheets": sheets, "sheet": sheets + 5})
        # sheet names that would mean something to a format string
        for names in (["Growth in %"], ["100%", "%s"], ["%d sheets", "50%discount", "%(x)s"]):
            faults.append({"kind": "missing-sheet", "sheets": sheets, "sheet": sheets + 1, "names": names})
    path = path_for("size")
    odf.write_ods(path, [[["a", "b", "b"], ["a", "b", "b"], ["c  d", "", "e"]]], {"col_runs": True, "row_runs": True})
    size = os.path.getsize(path)
    for at in range(0, size, 64 if quick else 1):
        faults.append({"kind": "truncate", "at": at})
    faults.append({"kind": "truncate", "at": size - 1})
    for at in range(0, size, 16 if quick else 1):
        faults.append({"kind": "flip", "at": at})
    ctx.pmap(MOD, "work", engine.chunks(cases, 200) + engine.chunks(faults, 60), label="C15")
    ctx.bound = {"tables": len(cases), "fault cases": len(faults), "switch subsets": "all subsets of up to %d of %d encoding features on 13 structured tables (runs, duplicate rows, whitespace, ragged and empty rows, up to 6x8)" % (switch_limit, len(SWITCHES)),
                 "small tables": "all tables of the shapes %s over %s; all 1x1 / 1x2%s tables over the full 20-cell alphabet" % (shapes, SMALL, "" if quick else " / 2x1 / 2x2"),
                 "sheets": "1..3 sheets x requested sheet 1..3 in 3 encodings", "faults": "not a zip, no content.xml, content.xml cut at every tag boundary, 7 malformed repeat counts for columns and rows, missing sheets, archive truncated at every %s byte" % ("64th" if quick else "single")}
    ctx.rule = ("every case writes a real .ods file with the independent producer (self-checked by an independent decoder) and reads it with rowio.ods_rows (and cutplace.rows for rectangular tables); "
                "non-trivial = table with whitespace-sensitive cells or any optional feature switched on, and every fault case; states = distinct logical tables returned by the reader")
    ctx.assumptions = ["paragraphs of one cell are joined by a line break", "ElementTree and zipfile are executed, not modelled"]
