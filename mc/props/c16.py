"""C16 — Excel cells render as documented text and the requested sheet is read.

Workbooks are generated with xlsxwriter (independent producer): all cell kinds x integer magnitudes
up to 2^53, a float grid, booleans, dates (quick: boundary days of 40 years; thorough: every date
1900-03-01..9999-12-31), times (thorough: every second of a day), 1..3 sheets x Sheet 1..3; the
xlsx row writer is round-tripped over string tables.  Every cell is read back through
rowio.excel_rows / cutplace.rows and compared with the documented rendering.
"""
import datetime
import itertools
import os

from mc import engine, harness, readermachine
from mc.core import Part
from mc.models import rowmodel
from mc.props import c15

MOD = "mc.props.c16"
WIDTH = 64


def path_for(name):
    return os.path.join(readermachine.tmpdir(), "%s_%d.xlsx" % (name, os.getpid()))


def integer_pool():
    values = {0, 1, 9, 10, 255, 2**15, 2**31, 2**53 - 1, 2**53}
    power = 1
    while power <= 2**53:
        values.update(v for v in (power - 1, power, power + 1) if 0 <= v <= 2**53)
        power *= 10
    return sorted(values | {-v for v in values})


FLOATS = [0.1, 0.5, 1.5, 1e-7, 123.456, 1e16, 1.5e300, 2.5e-300, 0.333333333333333, 99.99, 1e21, 123456789.125, 1e15 + 0.5, 2.0**53 + 2]  # at most 16 significant digits (what an xlsx file stores)


def expected_number(value):
    value = float("%.16g" % value)  # an xlsx file stores numbers with 16 significant digits
    if float(value).is_integer() and abs(value) <= 2**53:
        return ("exact", "%d" % int(value))
    return ("shortest", float(value))


def read_rows(path, sheet=1):
    m = harness.modules()
    try:
        return "rows", [list(r) for r in list(m["rowio"].excel_rows(path, sheet))]
    except m["errors"].DataFormatError as error:
        return "DataFormatError", str(error)
    except Exception as error:
        return "raised-" + type(error).__name__, repr(error)


def write_cells(path, cells, sheets_before=0, date_1904=False):
    """cells: list of (kind, value); laid out row-major in rows of WIDTH cells."""
    import xlsxwriter

    workbook = harness.new_workbook(path)
    if date_1904:
        # the other date system of the file format (day 0 is 1904-01-01, workbooks from Excel for Mac): dates denote the same days
        workbook.close()
        workbook = xlsxwriter.Workbook(path, {"date_1904": True})
        workbook.set_properties({"created": datetime.datetime(2020, 1, 1, 0, 0, 0), "author": "cutplace-verif"})
    date_format = workbook.add_format({"num_format": "yyyy-mm-dd hh:mm:ss"})
    time_format = workbook.add_format({"num_format": "hh:mm:ss"})
    for _ in range(sheets_before):
        workbook.add_worksheet().write_string(0, 0, "other")
    sheet = workbook.add_worksheet()
    for index, (kind, value) in enumerate(cells):
        y, x = divmod(index, WIDTH)
        if kind == "s":
            sheet.write_string(y, x, value)
        elif kind == "n":
            sheet.write_number(y, x, value)
        elif kind == "b":
            sheet.write_boolean(y, x, value)
        elif kind == "d":
            sheet.write_datetime(y, x, value, date_format)
        elif kind == "t":
            sheet.write_datetime(y, x, value, time_format)
    workbook.close()


def check_cells(cells, part, group, case_of):
    path = path_for(group.replace("@", "_"))
    write_cells(path, cells, date_1904=group.endswith("@1904"))
    outcome, rows = read_rows(path)
    part.transitions += 1
    if outcome != "rows":
        part.fail("%s|reading-failed:%s" % (group, outcome), case_of(0), "rows", rows)
        return
    flat = [cell for row in rows for cell in row]
    if any(len(row) != min(WIDTH, len(cells)) for row in rows):
        part.fail("%s|rows-not-padded-to-sheet-width" % group, case_of(0), min(WIDTH, len(cells)), sorted({len(row) for row in rows}))
        return
    for index, (kind, value) in enumerate(cells):
        part.validated += 1
        observed = flat[index] if index < len(flat) else None
        if kind == "s":
            ok, expected = observed == value, value
        elif kind == "n":
            how, target = expected_number(value)
            expected = target
            if how == "exact":
                ok = observed == target
            else:
                try:
                    ok = float(observed) == target and len(observed) <= len(repr(target))
                except (TypeError, ValueError):
                    ok = False
        elif kind == "b":
            expected = "1" if value else "0"
            ok = observed == expected
        elif kind == "d":
            expected = value.strftime("%Y-%m-%d %H:%M:%S") if isinstance(value, datetime.datetime) else value.strftime("%Y-%m-%d") + " 00:00:00"
            expected = "%04d" % value.year + expected[expected.index("-"):]
            ok = observed == expected
        else:
            expected = value.strftime("%H:%M:%S")
            ok = observed == expected
        if not ok:
            part.fail("%s|cell-kind-%s-rendered-wrong" % (group, kind), case_of(index), expected, observed)
    for index in range(len(cells), len(flat)):
        if flat[index] != "":
            part.fail("%s|padding-cell-not-empty" % group, case_of(0), "", flat[index])
    if cells and all(kind == "d" and not isinstance(value, datetime.datetime) for kind, value in cells):
        # date cells under a CID that declares date-only DateTime fields: validation must not change what the reader returns
        import cutplace

        cid_rows = [["D", "Format", "Excel"]] + [["F", "d%d" % i, "", "X", "", "DateTime", "YYYY-MM-DD"] for i in range(len(rows[0]))]
        try:
            validated = [list(row) for row in list(cutplace.rows(harness.make_cid(cid_rows), path))]
        except Exception as error:
            validated = "raised-%s: %s" % (type(error).__name__, error)
        part.transitions += 1
        part.validated += 1
        if validated != [list(row) for row in rows]:
            part.fail("%s|rows-changed-by-validation" % group, case_of(0), rows[:2], validated[:2] if isinstance(validated, list) else validated)


def judge(case, part):
    """case: {"group", "cells": [[kind, value-as-text], ...]} replays a small set of cells."""
    cells = []
    for kind, text in case["cells"]:
        if kind == "n":
            cells.append((kind, float(text)))  # noqa
        elif kind == "b":
            cells.append((kind, text == "True"))
        elif kind == "d":
            cells.append((kind, datetime.datetime.strptime(text.rjust(19, "0"), "%Y-%m-%d %H:%M:%S")))
        elif kind == "t":
            cells.append((kind, datetime.datetime.strptime(text, "%H:%M:%S").time()))
        else:
            cells.append((kind, text))
    if case["group"] == "sheets":
        return judge_sheets(case, part)
    if case["group"] == "writer":
        return judge_writer(case, part)
    part.evaluations += 1
    check_cells(cells, part, case["group"], lambda index: case)


def cell_text(kind, value):
    if kind == "d":
        return "%04d-%02d-%02d %02d:%02d:%02d" % (value.year, value.month, value.day, getattr(value, "hour", 0), getattr(value, "minute", 0), getattr(value, "second", 0))
    if kind == "t":
        return value.strftime("%H:%M:%S")
    if kind == "n":
        return repr(float(value))
    return str(value)


def cells_job(item):
    group, cells = item
    part = Part()
    part.evaluations += len(cells)
    part.nontrivial += len(cells)
    for kind, _ in cells[:1]:
        part.outcome("kind-" + kind)

    def case_of(index):
        kind, value = cells[index]
        return {"group": group, "cells": [[kind, cell_text(kind, value)]]}

    check_cells(cells, part, group, case_of)
    part.sample({"group": group, "cells": [[k, cell_text(k, v)] for k, v in cells[:6]], "count": len(cells)}, limit=1)
    part.state((group, len(cells), cell_text(*cells[0])))
    return part


def judge_sheets(case, part):
    import cutplace
    import xlsxwriter

    m = harness.modules()
    count, requested = case["sheets"], case["sheet"]
    path = path_for("sheets")
    workbook = harness.new_workbook(path)
    for number in range(1, count + 1):
        sheet = workbook.add_worksheet()
        sheet.write_string(0, 0, "sheet%d" % number)
        sheet.write_number(0, 1, number)
        sheet.write_string(1, 0, "x" * number)
        sheet.write_string(1, 1, "")
    workbook.close()
    part.evaluations += 1
    part.nontrivial += 1
    expected = [["sheet%d" % requested, str(requested)], ["x" * requested, ""]] if requested <= count else "DataFormatError"
    outcome, rows = read_rows(path, requested)
    part.transitions += 1
    part.validated += 1
    observed = rows if outcome == "rows" else outcome
    part.outcome("sheets:" + outcome)
    if observed != expected:
        part.fail("sheets|excel_rows-reads-wrong-sheet" if outcome == "rows" and requested <= count else "sheets|missing-sheet:" + outcome, case, expected, observed if outcome == "rows" else rows)
    cid_rows = [["D", "Format", "Excel"], ["D", "Sheet", str(requested)], ["F", "a", "", "", "", "Text"], ["F", "b", "", "X", "", "Text"]]
    try:
        back = [list(r) for r in list(cutplace.rows(harness.make_cid(cid_rows), path))]
    except m["errors"].DataFormatError:
        back = "DataFormatError"
    except Exception as error:
        back = "raised-" + type(error).__name__
    part.transitions += 1
    part.validated += 1
    if back != expected:
        part.fail("sheets|cutplace.rows-with-sheet-property", case, expected, back)


def judge_writer(case, part):
    m = harness.modules()
    table = case["table"] if "long" not in case and "lines" not in case else [["y" * case["long"], "z"]] if "long" in case else [[("ab\r\n\tc" * case["lines"])[:32767], "z"]]
    path = path_for("writer")
    part.evaluations += 1
    part.nontrivial += 1
    try:
        with m["rowio"].XlsxRowWriter(path) as writer:
            if case.get("api") == "write_rows":
                writer.write_rows(table)
            elif case.get("api") == "mixed":
                # the first row on its own, the rest in chunks of two, each chunk as a one-shot iterable
                writer.write_row(table[0])
                for start in range(1, len(table), 2):
                    writer.write_rows(row for row in table[start:start + 2])
            else:
                for index, row in enumerate(table):
                    if index == 1 and case.get("refused_between"):
                        try:
                            writer.write_row(["x", "y" * 40000, "z"])
                            part.fail("writer|oversized-cell-not-refused", case, "DataFormatError", "written")
                        except m["errors"].DataFormatError:
                            pass
                    writer.write_row(row)
    except Exception as error:
        if isinstance(error, m["errors"].DataFormatError) and any(len(cell) > 32767 for row in table for cell in row):
            part.outcome("writer-refuses-cell-beyond-the-format-limit")  # an xlsx cell holds at most 32767 characters: refusing loudly is not a changed table
            return
        part.fail("writer|%s-raised-%s" % (case.get("api", "write_row"), type(error).__name__), case, "written", repr(error))
        return
    width = max(len(row) for row in table)
    expected = [list(row) + [""] * (width - len(row)) for row in table]
    outcome, rows = read_rows(path)
    part.transitions += 2
    part.validated += 1
    if (rows if outcome == "rows" else outcome) != expected:
        part.fail("writer|table-does-not-read-back%s" % (":" + case["what"] if case.get("what") else ""), case, expected if len(str(expected)) < 2000 else "<first cell has %d characters>" % len(expected[0][0]), rows if len(str(rows)) < 2000 else "<first cell has %d characters>" % len(rows[0][0]))


def judge_layout(case, part):
    """A sheet in which only the non-empty cells are stored (what office suites write): rows without any stored cell, rows
    that end early and rows that start late all come back padded to the sheet's width; trailing empty rows do not exist."""
    table = case["table"]
    path = path_for("layout")
    workbook = harness.new_workbook(path)
    sheet = workbook.add_worksheet()
    for y, row in enumerate(table):
        for x, cell in enumerate(row):
            if cell != "":
                sheet.write_string(y, x, cell)
    workbook.close()
    part.evaluations += 1
    part.nontrivial += 1
    width = max([max([x + 1 for x, cell in enumerate(row) if cell != ""] or [0]) for row in table] or [0])
    height = max([y + 1 for y, row in enumerate(table) if any(cell != "" for cell in row)] or [0])
    expected = [[(row[x] if x < len(row) else "") for x in range(width)] for row in table[:height]]
    outcome, rows = read_rows(path)
    part.transitions += 1
    part.validated += 1
    part.outcome("layout:" + outcome)
    if (rows if outcome == "rows" else outcome) != expected:
        part.fail("layout|rows-not-padded-to-the-sheet-width", case, expected, rows if outcome == "rows" else [outcome, rows])


def misc_job(item):
    part = Part()
    for case in item:
        if case["group"] == "sheets":
            judge_sheets(case, part)
        elif case["group"] == "layout":
            judge_layout(case, part)
        else:
            judge_writer(case, part)
    part.sample(item[0], limit=1)
    return part


def date_cells(tier):
    cells = []
    if tier == "quick":
        years = sorted(set(list(range(1900, 1906)) + list(range(1996, 2006)) + [2023, 2024, 2038, 2099, 2100, 2101, 2400, 4000, 9998, 9999] + list(range(1950, 1960))))
        for year in years:
            for month in range(1, 13):
                for day in (1, 2, 28, 29, 30, 31):
                    try:
                        value = datetime.date(year, month, day)
                    except ValueError:
                        continue
                    if value >= datetime.date(1900, 3, 1):
                        cells.append(("d", value))
        return [cells]
    chunks = []
    day = datetime.date(1900, 3, 1)
    end = datetime.date(9999, 12, 31)
    one = datetime.timedelta(days=1)
    current = []
    while day <= end:
        current.append(("d", day))
        if len(current) >= 60000:
            chunks.append(current)
            current = []
        if day == end:
            break
        day += one
    if current:
        chunks.append(current)
    return chunks


def run(ctx):
    quick = ctx.tier == "quick"
    jobs = []
    strings = c15.ALPHABET + ["=1+1", "007", "1.0", "TRUE", "2000-01-01", "  lead", "trail  ", "ä" * 300]
    jobs.append(("strings", [("s", s) for s in strings if s != ""]))
    jobs.append(("integers", [("n", v) for v in integer_pool()]))
    jobs.append(("floats", [("n", v) for f in FLOATS for v in (f, -f)]))
    jobs.append(("booleans", [("b", True), ("b", False), ("s", "x")]))
    jobs.append(("mixed", [("s", "a"), ("n", 1), ("b", True), ("d", datetime.date(2000, 2, 29)), ("t", datetime.time(13, 14, 15)), ("n", 2.5), ("s", "z")]))
    for chunk in date_cells(ctx.tier):
        jobs.append(("dates", chunk))
    step = 61 if quick else 1
    times = [("t", (datetime.datetime(2000, 1, 1) + datetime.timedelta(seconds=s)).time()) for s in [0, 86399] + list(range(1, 86400, step))]
    jobs.append(("times", times))
    boundary = []
    for day in (datetime.date(1900, 3, 1), datetime.date(1999, 12, 31), datetime.date(2000, 2, 29), datetime.date(2024, 2, 29), datetime.date(9999, 12, 31)):
        for clock in (datetime.time(0, 0, 1), datetime.time(0, 0, 59), datetime.time(11, 59, 59), datetime.time(12, 0, 0), datetime.time(23, 59, 59), datetime.time(0, 0, 0)):
            boundary.append(("d", datetime.datetime.combine(day, clock)))
    # date-times across the whole range of serial numbers: rounding of the day fraction depends on the magnitude of the serial
    years = list(range(1901, 10000, 37 if quick else 3))
    clocks = [datetime.time(7, 7, 7), datetime.time(13, 14, 15), datetime.time(23, 59, 59), datetime.time(0, 0, 1), datetime.time(11, 11, 11), datetime.time(17, 30, 29), datetime.time(5, 59, 58)]
    for index, year in enumerate(years):
        for clock in clocks:
            boundary.append(("d", datetime.datetime.combine(datetime.date(year, 1 + index % 12, 1 + index % 28), clock)))
    jobs.append(("date+time", boundary))
    first_day = datetime.date(1904, 1, 2)
    jobs.append(("date+time@1904", [cell for cell in boundary if cell[1].date() >= first_day][:200]))
    jobs.append(("dates@1904", [cell for group, cells in jobs if group == "dates" for cell in cells if cell[1] >= first_day][:200]))
    ctx.pmap(MOD, "cells_job", jobs, label="C16 cells")
    misc = []
    for count in (1, 2, 3):
        for sheet in (1, 2, 3, 4):
            misc.append({"group": "sheets", "sheets": count, "sheet": sheet, "cells": []})
    tables = [t for t in c15.STRUCTURED if t and all(len(r) for r in t)] + c15.small_tables(c15.SMALL, [(1, 1), (1, 2), (2, 2)] if quick else [(1, 1), (1, 2), (2, 2), (2, 3)])
    for index, table in enumerate(tables):
        misc.append({"group": "writer", "table": table, "api": "write_rows" if index % 2 else "write_row", "cells": []})
    for table in [t for t in tables if len(t) >= 2][:12]:
        misc.append({"group": "writer", "table": table, "api": "mixed", "cells": []})
    # strings that look like markup, formulas or numbers, and strings at the cell size limit of the file format
    for name, cell in (("markup", "<r>x</r>"), ("markup", "<r><t>x</t></r>"), ("tag", "<t>x</t>"), ("formula", "=1+1"), ("array-formula", "{=1+1}"), ("number", "007"), ("number", "1e3"), ("url", "http://example.com/"),
                       ("mail", "mailto:a@example.com"), ("internal", "internal:Sheet1!A1"), ("quote-prefix", "'x")):
        misc.append({"group": "writer", "table": [[cell, "z"]], "api": "write_row", "cells": [], "what": name})
    for length in (32766, 32767, 32768, 40000):
        misc.append({"group": "writer", "long": length, "api": "write_row", "cells": [], "what": "%d-characters" % length})
    # cells below the size limit that hold many line breaks and tabs (their stored form is longer, the limit counts characters)
    for lines in (1500, 4000, 5461):
        misc.append({"group": "writer", "lines": lines, "api": "write_row", "cells": [], "what": "%d-lines" % lines})
    # a row the writer refuses (a cell beyond the size limit in its second column) between two ordinary rows: the others read back as written
    misc.append({"group": "writer", "refused_between": True, "table": [["a", "b", "c"], ["d", "e"]], "api": "write_row", "cells": [], "what": "row-refused-in-between"})
    # sparse sheets: every table of up to 4 rows x 3 columns over {empty, 'a'} (quick: up to 3 x 3), cells stored only where not empty
    layouts = 0
    for height in range(1, 4 if quick else 5):
        for flat in itertools.product(("", "a"), repeat=height * 3):
            table = [list(flat[r * 3:(r + 1) * 3]) for r in range(height)]
            misc.append({"group": "layout", "table": table, "cells": []})
            layouts += 1
    ctx.pmap(MOD, "misc_job", engine.chunks(misc, 40), label="C16 sheets+writer")
    ctx.bound = {"cells": {name: len(cells) for name, cells in jobs if name not in ("dates",)}, "date cells": sum(len(c) for n, c in jobs if n == "dates"),
                 "dates": "quick: days 1, 2, 28..31 of every month of 40 years between 1900 and 9999; thorough: every date 1900-03-01..9999-12-31", "times": "every %s second of a day" % ("61st" if quick else "single"),
                 "sheets": "1..3 sheets x requested sheet 1..4 through excel_rows and the Sheet property", "writer round trip": "%d string tables through write_row / write_rows" % len(tables), "sparse sheets": "%d: every pattern of stored / missing cells in up to %d rows x 3 columns" % (layouts, 3 if quick else 4)}
    ctx.rule = ("every generated cell is written with xlsxwriter and read back through rowio.excel_rows; oracle: strings verbatim, whole numbers as digits, other numbers as a text t with float(t)==value and "
                "len(t)<=len(repr(value)), booleans 1/0, dates 'YYYY-MM-DD hh:mm:ss', times 'hh:mm:ss', rows padded to the sheet width; non-trivial = every cell / sheet / table case")
    ctx.assumptions = ["a sheet written cell by cell does not store empty strings: the writer round trip is judged modulo trailing empty rows / columns", "dates before 1900-03-01 (Excel's leap-year bug) are outside the quantifier"]
