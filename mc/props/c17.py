"""C17 — the storage format of CID and data does not change the verdict.

Differential: (a) generated CIDs stored as CSV text, ODS and XLSX must load into equal definitions;
(b) generated tables of text cells stored as delimited text, ODS and XLSX, read under CIDs that
differ only in their Format property (each CID itself stored in all three ways), must receive the
same per-row verdicts and values: 9 combinations per case.
"""
import csv
import itertools
import os

from mc import engine, harness, readermachine
from mc.core import Part
from mc.models import cidgrammar, odf
from mc.props import c09

MOD = "mc.props.c17"
STORAGES = ("csv", "ods", "xlsx")
FORMATS = ("delimited", "ods", "excel")
FIELD_SETS = [["id", "name"], ["amount", "day", "kind", "id"], ["code", "tag", "const", "num"], ["kind", "note", "name"], ["day", "amount"], ["id", "amount", "day", "code", "tag", "const", "name"],
              ["num", "kind", "id"], ["const", "name"], ["tag", "id"], ["note", "amount", "name"], ["id", "stamp"], ["stamp", "day", "name"], ["id", "memo", "name"], ["memo", "kind"]]


def store_rows(rows, storage, name, odf_features=None, sheet=1, suffix=None):
    path = os.path.join(readermachine.tmpdir(), "%s_%d.%s" % (name, os.getpid(), suffix or storage))
    if storage == "csv":
        with open(path, "w", newline="", encoding="utf-8") as stream:
            csv.writer(stream, lineterminator="\n").writerows(rows)
    elif storage == "ods":
        odf.write_ods(path, [[["filler"]]] * (sheet - 1) + [rows], odf_features if odf_features is not None else {"span_range": [1, 6]})
    else:
        import xlsxwriter

        workbook = harness.new_workbook(path)
        for _ in range(sheet - 1):
            workbook.add_worksheet().write_string(0, 0, "filler")
        worksheet = workbook.add_worksheet()
        for y, row in enumerate(rows):
            for x, cell in enumerate(row):
                if cell != "":
                    worksheet.write_string(y, x, cell)
        workbook.close()
    return path


def load(path):
    import cutplace

    m = harness.modules()
    try:
        return "accepted", cutplace.Cid(path)
    except m["errors"].InterfaceError as error:
        return "refused: %s" % str(error).replace(os.path.basename(path), "<cid>"), None  # the message without the name of the file
    except Exception as error:
        return "raised-%s: %s" % (type(error).__name__, str(error).replace(os.path.basename(path), "<cid>")), None


def judge_cid(case, part):
    """(a) one generated CID in the three storages."""
    rows = case["rows"]
    part.evaluations += 1
    part.nontrivial += 1
    signatures = {}
    for storage in STORAGES:
        variants = [None] if storage != "ods" else [None, {"col_runs": True, "empty_as_p": True}, {"annotations": True}, {"span_range": [0, 40], "link": True}]
        for features in variants:
            outcome, cid = load(store_rows(rows, storage, "cid", features))
            part.transitions += 1
            key = storage if features is None else storage + ("+comments" if features.get("annotations") else ("+links" if features.get("link") else "+runs"))
            signatures[key] = c09.signature(cid) if cid is not None else outcome
        # the same file under a name whose suffix is written in capitals or mixed case
        outcome, cid = load(store_rows(rows, storage, "CID", None, suffix={"csv": "CSV", "ods": "ODS", "xlsx": "Xlsx"}[storage]))
        part.transitions += 1
        signatures[storage + "+capital-suffix"] = c09.signature(cid) if cid is not None else outcome
    part.validated += len(signatures) - 1
    reference = signatures["csv"]
    part.state(reference if not isinstance(reference, str) else (reference,))
    for key, value in signatures.items():
        part.outcome("cid:" + ("loaded" if not isinstance(value, str) else value.split(":")[0]))
        if value != reference:
            kind = "definition-differs" if not isinstance(value, str) and not isinstance(reference, str) else "load-outcome-differs"
            part.fail("cid-storage%s|csv-vs-%s|%s" % (":" + case["what"] if case.get("what") else "", key, kind), case, str(reference)[:600], str(value)[:600])


def cid_rows_for(fields, data_format, sheet, header=0):
    config = {"preset": data_format, "header": header, "fields": fields, "checks": []}
    decls = readermachine.decls_for(config)
    extra = [("Sheet", str(sheet))] if data_format in ("ods", "excel") and sheet != 1 else []
    extra.append(("Encoding", "utf-8"))  # delimited data are stored as a UTF-8 file that the reader opens itself
    checks = [["uniq", "IsUnique", fields[0]]]
    return harness.cid_rows(data_format, decls, checks, header, extra=extra), decls


def run_rows(cid, source):
    import cutplace

    m = harness.modules()
    events = []
    try:
        for item in cutplace.rows(cid, source, on_error="yield"):
            if isinstance(item, Exception):
                info = harness.describe_error(item)
                events.append(["rejected", type(item).__name__, info.get("line"), info.get("cell")])
            else:
                events.append(["accepted", item])  # copied only after the iteration, as list(cutplace.rows(...)) would see it
    except m["errors"].CutplaceError as error:
        events.append(["RAISED", type(error).__name__, str(error)[:200]])
    except Exception as error:
        events.append(["FOREIGN", type(error).__name__, str(error)[:200]])
    return [["accepted", list(event[1])] if event[0] == "accepted" else event for event in events]


def judge_table(case, part):
    """(b) one table under CIDs differing only in Format, each CID stored in three ways."""
    fields, table, sheet = case["fields"], case["table"], case.get("sheet", 1)
    part.evaluations += 1
    if case.get("has_rejects"):
        part.nontrivial += 1
    results = {}
    header = case.get("header", 0)
    for data_format in FORMATS:
        rows, decls = cid_rows_for(fields, data_format, sheet, header)
        config = {"preset": data_format, "header": header, "fields": fields, "sheet": sheet if data_format != "delimited" else 1,
                  "odf": {"span_range": [1, 6], "span_nested": bool(sheet % 2), "col_runs": True, "paragraphs": True, "annotations": case.get("number", 0) % 3 == 0, "link": case.get("number", 0) % 2 == 1}}  # ODS data: part of every longer cell inside inline elements, runs of equal cells stored once, one paragraph per line of a cell
        for storage in STORAGES:
            outcome, cid = load(store_rows(rows, storage, "tcid"))
            part.transitions += 2
            if cid is None:
                results[(data_format, storage)] = [["CID", outcome]]
                continue
            source, _ = readermachine.store(config, decls, table, name="tdata")
            if data_format == "delimited":
                path = os.path.join(readermachine.tmpdir(), "tdata.csv")
                with open(path, "w", newline="", encoding="utf-8") as stream:
                    stream.write(source.getvalue())
                source = path
            results[(data_format, storage)] = run_rows(cid, source)
    part.validated += len(results) - 1
    for key, value in results.items():
        if any(event[0] == "FOREIGN" for event in value):
            # all storage formats failing alike would satisfy the differential oracle: an ending that is no cutplace error is wrong by itself
            part.fail("data-storage|data=%s,cid=%s|run-ended-with-a-foreign-error" % key, case, "rows, rejections or a cutplace error", value)
    reference_key = ("delimited", "csv")
    reference = results[reference_key]
    for event in reference:
        part.outcome(event[0])
    for key, value in results.items():
        if value != reference:
            what = "verdicts-differ" if [e[0] for e in value] != [e[0] for e in reference] else "values-or-locations-differ"
            part.fail("data-storage%s|data=%s,cid=%s|%s" % (":" + case["what"] if case.get("what") else "", key[0], key[1], what), case, reference, value)


def judge(case, part):
    if case["kind"] == "cid":
        judge_cid(case, part)
        if case.get("blank_variant", True):
            # the same CID with a blank in front of every check description, check rule and example: whatever that means for the definition, it means the same in every storage format
            changed = []
            for row in case["rows"]:
                row = list(row)
                marker = row[0].strip().upper() if row else ""
                if marker == "C" and len(row) > 1:
                    row[1] = " " + row[1]
                    if len(row) > 3 and row[3]:
                        row[3] = " " + row[3]
                elif marker == "F" and len(row) > 2 and row[2]:
                    row[2] = " " + row[2]
                changed.append(row)
            judge_cid({"kind": "cid", "rows": changed, "what": "blank-in-front"}, part)
    else:
        judge_table(case, part)


def work(item):
    part = Part()
    for case in item:
        judge(case, part)
    part.sample(item[0], limit=1)
    return part


def tables_for(fields, count):
    """Deterministic tables mixing accepted and rejected cells; the last column is never empty and keys are distinct."""
    catalogue = readermachine.CATALOGUE
    tables = []
    accepted = [[c for c in catalogue[name][2] if c != ""] or catalogue[name][2] for name in fields]
    rejected = [[c for c in catalogue[name][3] if c != ""] for name in fields]
    base_rows = []
    for variant in range(3):
        base_rows.append([accepted[i][variant % len(accepted[i])] for i in range(len(fields))])
    tables.append(([list(r) for r in base_rows], False))
    tables.append(([list(base_rows[0]), list(base_rows[0])], True))  # duplicate key
    # the very first cell of the data starts with U+FEFF: an ordinary character of that cell in every storage format
    marked = [list(base_rows[0]), list(base_rows[1])]
    marked[0][0] = "\ufeff" + marked[0][0]
    tables.append((marked, True))
    # cells with blanks in front or behind: part of the cell in every storage format (only fixed-width data are padded)
    for column in range(len(fields)):
        for padded in (base_rows[1][column] + " ", " " + base_rows[1][column], "  " + base_rows[1][column] + "  "):
            table = [list(base_rows[0]), list(base_rows[1]), list(base_rows[2])]
            table[1][column] = padded
            tables.append((table, True))
    tables.append(([list(base_rows[0]), [" "] + list(base_rows[1][1:]), ["   "] * len(fields)], True))  # blank-only cells
    # a date-only cell followed by the text ' 00:00:00' (what an Excel *date* cell renders as): as a text cell it is the same text in every storage format
    if "day" in fields:
        table = [list(base_rows[0]), list(base_rows[1]), list(base_rows[2])]
        table[1][fields.index("day")] = base_rows[1][fields.index("day")] + " 00:00:00"
        tables.append((table, "midnight-suffix"))
    # every row one cell wider than the CID, the surplus cell empty in all rows but the first: too many items in every storage format
    table = [list(base_rows[0]) + ["zz"], list(base_rows[1]) + [""], list(base_rows[2]) + [""]]
    tables.append((table, True))
    # a row of empty cells only between other rows: a row like any other in every storage format
    tables.append(([list(base_rows[0]), [""] * len(fields), list(base_rows[1])], True))
    if len(fields) >= 3:
        # rows ending in two or three empty cells (an office suite stores such a run as one repeated cell); another row keeps the sheet width
        for trailing in (2, 3):
            if trailing < len(fields):
                table = [list(base_rows[0]), list(base_rows[1]), list(base_rows[2])]
                table[1][-trailing:] = [""] * trailing
                tables.append((table, True))
    for column in range(len(fields)):
        for bad in rejected[column]:
            table = [list(base_rows[0]), list(base_rows[1])]
            table[1][column] = bad
            tables.append((table + [list(base_rows[2])], True))
    # empty cells in inner columns
    for column in range(len(fields) - 1):
        table = [list(base_rows[0]), list(base_rows[1])]
        table[0][column] = ""
        tables.append((table, True))
    for a, b in itertools.combinations(range(len(fields)), 2):
        if rejected[a] and rejected[b]:
            table = [list(base_rows[1])]
            table[0][a] = rejected[a][0]
            table[0][b] = rejected[b][-1]
            tables.append((table + [list(base_rows[0])], True))
    return tables[:count]


def run(ctx):
    quick = ctx.tier == "quick"
    cases = []
    for base in cidgrammar.base_cids(80 if quick else 400):
        cases.append({"kind": "cid", "rows": base["rows"]})
    table_count = 0
    for index, fields in enumerate(FIELD_SETS):
        for number, (table, has_rejects) in enumerate(tables_for(fields, 40 if quick else 120)):
            cases.append({"kind": "table", "fields": fields, "table": table, "sheet": 1 + (index + number) % 2, "has_rejects": bool(has_rejects), "number": number, "what": has_rejects if isinstance(has_rejects, str) else ""})
            table_count += 1
    # tables behind one or two header rows whose cells hold line breaks and quotes: a header row is one row in every storage format
    for index, fields in enumerate(FIELD_SETS[:6]):
        for header, head in ((1, [["customer\nid"] + ["h"] * (len(fields) - 1)]), (2, [["title"] + [""] * (len(fields) - 1), ["a \"quoted\"\nname"] + ["second\n\nline"] * (len(fields) - 1)])):
            table, has_rejects = tables_for(fields, 2)[1]
            cases.append({"kind": "table", "fields": fields, "table": head + table, "sheet": 1, "has_rejects": True, "number": 1, "what": "", "header": header})
            table_count += 1
    ctx.pmap(MOD, "work", engine.chunks(cases, 8), label="C17")
    ctx.bound = {"CIDs": len(cases) - table_count, "tables": table_count, "combinations per table": "3 data formats x 3 CID storages = 9", "sheets": "data on sheet 1 or 2 with the matching Sheet property"}
    ctx.rule = ("differential oracle, no expected values: (a) the definition snapshot of a CID loaded from csv, ods (two encodings) and xlsx must be equal; (b) the event list (accept + values / reject + error class, row, "
                "column) of a table must be equal across all 9 (data format, CID storage) combinations; non-trivial = every CID case and every table containing a rejected cell")
    ctx.assumptions = ["every table has a row whose last cell is non-empty and contains no ragged rows and no row of empty cells at its end, because an xlsx sheet does not store empty strings (covered by C04)"]
