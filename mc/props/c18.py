"""C18 — the command line's exit code reflects the validation outcome.

Explorer (P), full product: CID in {valid, rejected by a rule, malformed container, missing} x every
list of 0..3 data files in every order over {accepted, rejected by a field, rejected by IsUnique,
sibling sharing keys, missing, directory} x --until in {absent, -1, 0, 1, 2, 3} plus argument
faults; in-process applications.main, thorough: a subset as subprocesses.  Oracle: 2 / 3 / 1 / 0 as
in the statement, where 'rejected' is decided differentially by the API on a fresh CID.
"""
import contextlib
import io
import itertools
import os
import subprocess
import sys

from mc import engine, harness, readermachine, repo
from mc.core import Part

MOD = "mc.props.c18"
CIDS = {
    "valid": "D,Format,Delimited\nD,Line delimiter,LF\nF,id,,,,Integer,0...99\nF,name,,,1...5\nC,unique id,IsUnique,id\n",
    "header1": "D,Format,Delimited\nD,Line delimiter,LF\nD,Header,1\nF,id,,,,Integer,0...99\nF,name,,,1...5\nC,unique id,IsUnique,id\n",
    "header2": "D,Format,Delimited\nD,Line delimiter,LF\nD,Header,2\nF,id,,,,Integer,0...99\nF,name,,,1...5\nC,unique id,IsUnique,id\n",
    # a verdict that falls at the end of the data and depends on how many rows the limit let through (also: none at all)
    "count": "D,Format,Delimited\nD,Line delimiter,LF\nF,id,,,,Integer,0...99\nF,name,,,1...5\nC,unique id,IsUnique,id\nC,enough ids,DistinctCount,id >= 3\n",
    "rejected": "D,Format,Delimited\nF,id,,,,Integer,9...0\nF,name\n",
    "nofields": "D,Format,Delimited\nD,Line delimiter,LF\n",  # a data format but no field: rejected by the API, so exit code 1
    "nofields+check": "D,Format,Delimited\n,a comment\nC,c,IsUnique,id\n",
    "malformed": 'D,Format,Delimited\nF,id,,,,Integer,0...99\nF,"name\n',
    "ods": "D,Format,ODS\nF,id,,,,Integer,0...99\nF,name,,,1...5\nC,unique id,IsUnique,id\n",
    "excel": "D,Format,Excel\nF,id,,,,Integer,0...99\nF,name,,,1...5\nC,unique id,IsUnique,id\n",
}
FILES = {
    "accepted": "1,ann\n2,bob\n3,cy\n",
    "field": "1,ann\n2,bob\nx,cy\n4,dee\n",
    "unique": "1,ann\n2,bob\n3,cy\n3,dee\n",
    "sibling": "1,dan\n2,eve\n4,fay\n",
    "empty": "",
    "accents": "5,Andr\u00e9\n6,Zo\u00eb\n",  # stored in the data format's default encoding (cp1252), not in that of the CID file
    # names that mean something to glob patterns, each next to a file the pattern would match and whose verdict is the opposite
    "bad[1]": "1,ann\nx,bob\n", "bad1": "1,ann\n",
    "go?d": "1,ann\n2,bob\n", "good": "1,ann\n1,bob\n",
}
KINDS = ["accepted", "field", "unique", "sibling", "missing", "directory", "empty", "accents", "bad[1]", "go?d"]
UNTILS = [None, -1, 0, 1, 2, 3]
_FOLDER = {}


def folder():
    pid = os.getpid()
    if pid not in _FOLDER:
        base = os.path.join(readermachine.tmpdir(), "c18")
        os.makedirs(os.path.join(base, "directory"), exist_ok=True)
        for name, text in CIDS.items():
            with open(os.path.join(base, "cid_%s.csv" % name), "w", newline="", encoding="utf-8") as stream:
                stream.write(text)
        for name, text in FILES.items():
            with open(os.path.join(base, name + ".csv"), "w", newline="", encoding="cp1252") as stream:
                stream.write(text)
            table = [line.split(",") for line in text.splitlines()]
            from mc.models import odf
            import xlsxwriter

            odf.write_ods(os.path.join(base, name + ".ods"), [table], {})
            workbook = harness.new_workbook(os.path.join(base, name + ".xlsx"))
            sheet = workbook.add_worksheet()
            for y, row in enumerate(table):
                for x, cell in enumerate(row):
                    sheet.write_string(y, x, cell)
            workbook.close()
        _FOLDER[pid] = base
    return _FOLDER[pid]


def path_of(kind, cid="valid"):
    base = folder()
    suffix = {"ods": ".ods", "excel": ".xlsx"}.get(cid, ".csv")
    if kind == "missing":
        return os.path.join(base, "no_such_file" + suffix)
    if kind == "directory":
        return os.path.join(base, "directory")
    return os.path.join(base, kind + suffix)


def api_rejects(kind, until, cid_kind="valid"):
    """Differential oracle: does the programmatic API reject the file on a fresh CID?"""
    import cutplace

    m = harness.modules()
    cid = cutplace.Cid(os.path.join(folder(), "cid_%s.csv" % cid_kind))
    limit = None if until in (None, -1) else until
    try:
        for _ in cutplace.rows(cid, path_of(kind, cid_kind), validate_until=limit):
            pass
        return False
    except m["errors"].DataError:
        return True


def expected_code(cid, kinds, until):
    if cid.startswith("missing"):
        return 3
    if cid in ("rejected", "malformed", "nofields", "nofields+check"):
        return 1
    rejected = False
    for kind in kinds:
        if kind in ("missing", "directory"):
            return 3
        if api_rejects(kind, until, cid):
            rejected = True
    return 1 if rejected else 0


def call_main(arguments):
    from cutplace import applications

    sink = io.StringIO()
    with contextlib.redirect_stderr(sink), contextlib.redirect_stdout(sink):
        try:
            return applications.main(["cutplace"] + arguments)
        except SystemExit as error:
            return error.code
        except BaseException as error:
            return "raised-" + type(error).__name__


def arguments_for(case):
    arguments = []
    if case["until"] is not None:
        arguments += ["--until", str(case["until"])]
    if case["cid"].startswith("missing"):  # "missing" or "missing.<suffix>": a CID file that does not exist, named like a CSV, ODS or Excel file
        cid_path = os.path.join(folder(), "no_such_cid" + (case["cid"][len("missing"):] or ".csv"))
    else:
        cid_path = os.path.join(folder(), "cid_%s.csv" % case["cid"])
    return arguments + [cid_path] + [path_of(kind, case["cid"]) for kind in case["files"]]


def judge(case, part):
    part.evaluations += 1
    part.transitions += 1
    part.validated += 1
    if "argv" in case:
        expected = 2
        observed = call_main(case["argv"])
        what = "argument-fault"
    else:
        expected = expected_code(case["cid"], case["files"], case["until"])
        observed = call_main(arguments_for(case))
        what = "cid=%s" % case["cid"]
    if expected != 0:
        part.nontrivial += 1
    part.outcome("exit-%s" % observed)
    if observed != expected:
        part.fail("%s|exit-%s-but-expected-%s" % (what, observed, expected), case, expected, observed)
    return observed


def work(item):
    part = Part()
    for case in item:
        judge(case, part)
    part.sample(item[len(item) // 2], limit=1)
    part.state(item[0].get("cid", "argv"))
    return part


def subprocess_job(item):
    part = Part()
    for case in item:
        expected = 2 if "argv" in case else expected_code(case["cid"], case["files"], case["until"])
        arguments = case["argv"] if "argv" in case else arguments_for(case)
        environment = dict(os.environ, PYTHONPATH=repo.REPO)
        done = subprocess.run([sys.executable, "-m", "cutplace.applications"] + arguments, capture_output=True, text=True, env=environment, cwd=repo.REPO, timeout=120)
        part.evaluations += 1
        part.transitions += 1
        part.validated += 1
        part.nontrivial += 1
        part.outcome("subprocess-exit-%s" % done.returncode)
        if done.returncode != expected:
            part.fail("subprocess|exit-%s-but-expected-%s" % (done.returncode, expected), case, expected, [done.returncode, done.stderr[-300:]])
    return part


def all_cases(tier="quick"):
    cases = []
    thorough = tier == "thorough"
    lists = [list(p) for n in range(0, 5 if thorough else 4) for p in itertools.product(KINDS, repeat=n)]
    for cid in ("valid", "rejected", "malformed", "missing", "missing.ods", "missing.xlsx", "missing.xls", "missing.txt", "nofields", "nofields+check"):
        for files in lists:
            for until in UNTILS:
                if cid != "valid" and (until not in (None, 2) or len(files) > 2):
                    continue
                cases.append({"cid": cid, "files": files, "until": until})
    for cid in ("header1", "header2", "count"):  # the limit counts header rows, on the command line as in the API
        for files in [list(p) for n in range(0, 4 if thorough else 3) for p in itertools.product(KINDS, repeat=n)]:
            for until in UNTILS + [4] + ([5, 6] if thorough else []):
                cases.append({"cid": cid, "files": files, "until": until})
    for cid in ("ods", "excel"):
        for files in [list(p) for n in range(0, 4 if thorough else 3) for p in itertools.product(KINDS, repeat=n)]:
            for until in (UNTILS if thorough else (None, 0, 2)):
                cases.append({"cid": cid, "files": files, "until": until})
    faults = [[], ["--bogus"], ["--until", "-2", "cid.csv"], ["--until", "x", "cid.csv"], ["--until"], ["--log", "loud", "cid.csv"], ["--until", "1.5", "cid.csv"], ["-x", "y"]]
    for argv in faults:
        cases.append({"argv": argv})
    return cases


def run(ctx):
    cases = all_cases(ctx.tier)
    ctx.pmap(MOD, "work", engine.chunks(cases, 150), label="C18")
    subset = []
    if ctx.tier == "thorough":
        subset = [c for c in cases if "argv" in c] + [c for c in cases if "cid" in c and len(c["files"]) <= 2 and c["until"] in (None, 0)][::9][:120]
    else:
        subset = [{"cid": "valid", "files": ["accepted", "sibling"], "until": None}, {"cid": "valid", "files": ["unique", "accepted"], "until": None},
                  {"cid": "valid", "files": ["accepted", "missing"], "until": None}, {"argv": []}, {"cid": "malformed", "files": ["accepted"], "until": None}]
    ctx.pmap(MOD, "subprocess_job", engine.chunks(subset, 4), label="C18 subprocess")
    ctx.bound = {"in-process cases": len(cases), "subprocess cases": len(subset), "file lists": "every list of 0..%d data files in every order over 6 kinds" % (4 if ctx.tier == "thorough" else 3), "until": UNTILS,
                 "CIDs": ["valid", "valid with 1 or 2 header rows", "stored as ODS / Excel", "rejected by a rule", "malformed CSV container", "missing"]}
    ctx.rule = ("full product; oracle: 2 for argument faults, 3 if the CID or a named data file cannot be read, else 1 if the CID is rejected or any file is rejected by the API on a fresh CID (differential), else 0; "
                "non-trivial = case whose expected exit code is not 0; states = CID kinds")
    ctx.assumptions = ["files after the first unreadable one are not judged", "SystemExit codes raised by argument parsing count as the exit code"]
