"""C19 — generated SQL DDL mirrors the CID.

Explorer (P): CIDs with 1..6 fields from a typed catalogue x 4 dialects, field names including
keywords of every dialect, empty flag both ways, and all pairs lo <= hi over the boundary set
+-{0, 1, 2^7.., 2^8.., 2^15.., 2^16.., 2^31.., 2^32.., 2^63..} for Integer rules.  The generated
statement is parsed back line by line and compared with the CID structure; Integer column types
must have the capacity for both limits under the dialect's semantics.
"""
import itertools
import json
import os
import re

from mc import engine, harness
from mc.core import Part

MOD = "mc.props.c19"
with open(os.path.join(os.path.dirname(os.path.dirname(os.path.abspath(__file__))), "models", "sql_keywords.json")) as _keyword_file:
    KEYWORDS = {name: frozenset(words) for name, words in json.load(_keyword_file).items()}
BOUNDARY = sorted({s * v for s in (1, -1) for p in (7, 8, 15, 16, 31, 32, 63) for v in (2**p - 1, 2**p, 2**p + 1)} | {0, 1, -1, 5, -5, 100, -100})
CAPACITY = {"tinyint": (0, 255), "smallint": (-(2**15), 2**15 - 1), "int": (-(2**31), 2**31 - 1), "integer": (-(2**31), 2**31 - 1), "bigint": (-(2**63), 2**63 - 1)}
NAMES = ["id", "name", "Select", "table", "date", "a_1", "User", "level", "NUMBER", "zone"]  # keywords are recognised whatever their case
LINE = re.compile(r'(?P<name>"?\w+"?) (?P<type>\w+)(?:\((?P<p>\d+)(?:, (?P<s>\d+))?\))?(?P<notnull> not null)?(?P<default> default .*)?')


def digits_before_after(text):
    text = text.lstrip("-")
    whole, _, fraction = text.partition(".")
    return len(whole.lstrip("0")), len(fraction)


def able_to_store(dialect_name, column_type, p, s, lo, hi):
    if column_type in ("decimal", "number"):
        if p is None:
            return True
        room = int(p) - int(s or 0)
        return max(len(str(abs(lo))), len(str(abs(hi)))) <= room
    if column_type == "int" and dialect_name in ("ANSI", "PL/SQL"):
        return True  # implementation defined / NUMBER(38)
    if column_type not in CAPACITY:
        return None
    low, high = CAPACITY[column_type]
    return low <= lo and hi <= high


def judge(case, part):
    """case: {"dialect": name, "fields": [{"name", "type", "empty", "length", "rule", + model keys}]}"""
    from cutplace import sql

    if "create" in case:  # replay of a --create case
        return create_option_case(case, part)
    m = harness.modules()
    dialect = sql.SQL_NAME_TO_DIALECT_MAP[case["dialect"]]
    rows = [["D", "Format", "Delimited"]] + [["D", name, value] for name, value in case.get("props", [])]
    for field in case["fields"]:
        if "default" not in field:
            rows.append(["F", field["name"], "", "X" if field["empty"] else "", field.get("length", ""), field["type"], field.get("rule", "")])
    part.evaluations += 1
    part.transitions += 2
    tag = "%s|%%s" % case["dialect"]
    try:
        rows += [["C", "check %d" % index, check_type, rule] for index, (check_type, rule) in enumerate(case.get("checks", []))]
        cid = harness.make_cid(rows)
        for field in case["fields"]:
            if "default" in field:
                # a field added through the API with a value to use for empty cells (shows as a DEFAULT clause)
                field_class = getattr(m["fields"], field["type"] + "FieldFormat")
                cid.add_field_format(field_class(field["name"], field["empty"], field.get("length", ""), field.get("rule", ""), cid.data_format, empty_value=field["default"]))
        statement = sql.SqlFactory(cid, "some_table", dialect).create_table_statement()
    except Exception as error:
        part.fail(tag % ("statement-not-generated:" + type(error).__name__), case, "create table statement", repr(error))
        return
    # one factory asked again, and after its columns have been iterated: the same statement every time
    try:
        factory = sql.SqlFactory(cid, "some_table", dialect)
        first = factory.create_table_statement()
        columns_seen = len(list(factory.sql_fields()))
        again = factory.create_table_statement()
        part.transitions += 2
        if not (first == again == statement) or columns_seen != len(case["fields"]):
            part.fail(tag % "statement-changes-when-the-factory-is-used-again", case, statement, {"first": first, "again": again, "sql_fields": columns_seen})
            return
    except Exception as error:
        part.fail(tag % ("factory-used-again:" + type(error).__name__), case, "the same statement", repr(error))
        return
    lines = statement.splitlines()
    part.state((case["dialect"], tuple(re.sub(r"\d+", "N", line) for line in lines[1:-1])))
    if not lines or not lines[0].startswith("create table some_table (") or lines[-1].strip() != ");":
        part.fail(tag % "statement-frame", case, "create table some_table ( ... );", statement)
        return
    # column definitions are separated by one comma: behind every column but the last
    separators = [len(line.strip()) - len(line.strip().rstrip(",")) for line in lines[1:-1]]
    if separators != [1] * (len(separators) - 1) + [0] * min(1, len(separators)):
        part.fail(tag % "column-separators", case, "one comma behind every column but the last", statement)
        return
    columns = [line.strip().rstrip(",") for line in lines[1:-1]]
    part.validated += 1
    if len(columns) != len(case["fields"]):
        part.fail(tag % "column-count", case, len(case["fields"]), columns)
        return
    for field, column in zip(case["fields"], columns):
        match = LINE.fullmatch(column)
        part.validated += 1
        if not match:
            part.fail(tag % "column-not-parsable", case, "name type[(p[, s])] [not null]", column)
            continue
        name = match.group("name")
        # reference copy of the dialects' reserved words (mc/models/sql_keywords.json, taken from the pinned tree): the list the
        # tree under test carries may itself be damaged
        keyword = field["name"].lower() in KEYWORDS[case["dialect"]]
        expected_name = '"%s"' % field["name"] if keyword else field["name"]
        if name != expected_name:
            part.fail(tag % ("keyword-quoting:%s" % ("missing" if keyword else "unexpected")), case, expected_name, column)
        if bool(match.group("notnull")) != (not field["empty"]):
            part.fail(tag % "not-null-flag", case, "not null" if not field["empty"] else "nullable", column)
        column_type, p, s = match.group("type"), match.group("p"), match.group("s")
        part.outcome("%s:%s" % (field["type"], column_type))
        if field["type"] == "Integer" and "range" in field:
            lo, hi = field["range"]
            verdict = able_to_store(case["dialect"], column_type, p, s, lo, hi)
            if verdict is None:
                part.fail(tag % ("integer-column-of-unknown-type:" + column_type), case, "integer capable type", column)
            elif not verdict:
                sign = "negative-lower-limit" if lo < 0 else "non-negative"
                part.fail(tag % ("integer-column-too-small:%s:%s" % (column_type, sign)), case, "type able to store %d and %d" % (lo, hi), column)
        elif field["type"] == "Decimal":
            before, after = field["digits"]
            if column_type not in ("decimal", "number") or p is None or s is None or (int(p), int(s)) != (before + after, after):
                part.fail(tag % "decimal-digits", case, "(%d, %d)" % (before + after, after), column)
        elif field["type"] in ("Text", "Choice"):
            upper = field.get("upper")
            expected_type = "varchar2" if case["dialect"] == "PL/SQL" else "varchar"
            if column_type != expected_type or (None if p is None else int(p)) != upper or s is not None:
                part.fail(tag % "text-length", case, "%s(%s)" % (expected_type, upper), column)


def integer_field(name, lo, hi, empty):
    return {"name": name, "type": "Integer", "empty": empty, "rule": "%d...%d" % (lo, hi), "range": [lo, hi]}


def text_field(name, length, upper, empty, field_type="Text", rule=""):
    return {"name": name, "type": field_type, "empty": empty, "length": length, "upper": upper, "rule": rule}


def decimal_field(name, rule, empty):
    if rule:
        limits = [t for t in re.split(r"\.\.\.|,", rule) if t.strip()]
        before = max(digits_before_after(t.strip())[0] for t in limits)
        after = max(digits_before_after(t.strip())[1] for t in limits)
    else:
        before, after = 19, 12
    return {"name": name, "type": "Decimal", "empty": empty, "rule": rule, "digits": [before, after]}


def all_cases(tier="quick"):
    from_dialects = ["ANSI", "DB2", "Transact-SQL", "PL/SQL"]
    cases = []
    thorough = tier == "thorough"
    boundary = BOUNDARY
    if thorough:  # also the decimal digit-count boundaries, both signs
        boundary = sorted(set(BOUNDARY) | {s * v for s in (1, -1) for k in (1, 2, 3, 4, 5, 9, 10, 18, 19) for v in (10**k - 1, 10**k)})
    for dialect in from_dialects:
        for lo, hi in itertools.combinations_with_replacement(boundary, 2):
            cases.append({"dialect": dialect, "fields": [integer_field("v", lo, hi, False)]})
        # multi-item rules: the column must hold the overall minimum and maximum, whatever the order of the items
        pool = [-40000, -129, -5, -1, 0, 1, 9, 255, 256, 1000, 32767, 32768, 70000, 2**31 - 1, 2**31]
        for a, b, c, d in itertools.combinations(pool, 4):
            if (pool.index(a) + pool.index(d)) % 3 and not thorough:
                continue  # quick: a third of the 1365 quadruples, spread over the pool
            for items in ([(a, b), (c, d)], [(c, d), (a, b)], [(a, a), (b, c), (d, d)], [(d, d), (a, a), (b, c)]):
                rule = ", ".join("%d" % lo if lo == hi else "%d...%d" % (lo, hi) for lo, hi in items)
                cases.append({"dialect": dialect, "fields": [{"name": "v", "type": "Integer", "empty": False, "rule": rule, "range": [a, d]}]})
        for rule, lo, hi in (("0, 1000...70000", 0, 70000), ("-5...0, 300...40000", -5, 40000), ("0...9, -40000...-30000", -40000, 9), ("0, 2...2147483648", 0, 2**31), ("0, 1...32768", 0, 32768)):
            cases.append({"dialect": dialect, "fields": [{"name": "v", "type": "Integer", "empty": False, "rule": rule, "range": [lo, hi]}]})
        for length, upper in (("0, 5...10", 10), ("1...2, 8", 8), ("8, 1...2", 8), ("0...3", 3)):
            cases.append({"dialect": dialect, "fields": [text_field("t", length, upper, True)]})
        # data format properties and checks do not show in the statement: multi-byte encodings, uniqueness and distinct-count checks over optional and required fields
        for props in ([["Encoding", "utf-8"]], [["Encoding", "utf-16"]], [["Encoding", "cp932"]], [["Encoding", "ascii"], ["Allowed characters", "32...126"]]):
            cases.append({"dialect": dialect, "props": props, "fields": [text_field("a", "...9", 9, True), text_field("b", "3...60", 60, False), text_field("c", "...7", 7, True, "Choice", '"x","y"')]})
        for checks in ([["IsUnique", "a"]], [["IsUnique", "a, b"], ["DistinctCount", "c < 9"]], [["IsUnique", "c, a"], ["IsUnique", "b"]]):
            cases.append({"dialect": dialect, "checks": checks, "fields": [text_field("a", "...9", 9, True), text_field("b", "3...60", 60, False), text_field("c", "...7", 7, True, "Choice", '"x","y"'), integer_field("n", 0, 99, True)]})
        # fields added through the API with a default for empty cells, after a plain first field: NOT NULL is about the empty mark alone
        for empty_flags in itertools.product((False, True), repeat=2):
            api_fields = [text_field("first", "...5", 5, False)]
            for index, empty in enumerate(empty_flags):
                api_fields.append(dict(text_field("d%d" % index, "...%d" % (4 + index), 4 + index, empty), default="X%d" % index))
            cases.append({"dialect": dialect, "fields": api_fields})
        # upper length limits around the sizes at which database products cap or switch their character types
        for upper in (1, 254, 255, 256, 2000, 3999, 4000, 4001, 8000, 8001, 32672, 32673, 32767, 65535, 65536, 10**6, 2**31):
            for field_type, rule in (("Text", ""), ("Pattern", "a*"), ("RegEx", "a+")):
                if field_type == "Text" or upper in (255, 4001, 32673):
                    cases.append({"dialect": dialect, "fields": [text_field("t", "...%d" % upper, upper, upper % 2 == 0, field_type, rule)]})
                    cases.append({"dialect": dialect, "fields": [text_field("t", "%d...%d" % (upper // 2 + 1, upper), upper, upper % 2 == 1, field_type, rule)]})
        # integer ranges derived from a length
        for length, lo, hi in (("1", 0, 9), ("2", -9, 99), ("1...3", -99, 999), ("...5", -9999, 99999), ("2...4", -999, 9999)):
            cases.append({"dialect": dialect, "fields": [{"name": "v", "type": "Integer", "empty": True, "length": length, "range": [lo, hi]}]})
        cases.append({"dialect": dialect, "fields": [{"name": "v", "type": "Integer", "empty": False, "range": [-(2**31), 2**31 - 1]}]})
        catalogue = []
        for index, name in enumerate(NAMES):
            empty = index % 2 == 0
            catalogue.append(text_field(name, ["", "5", "3...5", "...10"][index % 4], [None, 5, 5, 10][index % 4], empty))
            if index % 3 == 0:
                # a lower length limit of 0 says nothing about NOT NULL: only the empty mark does
                catalogue.append(text_field(name, "0...7", 7, index % 2 == 1))
                catalogue.append(text_field(name, "0, 3...9", 9, index % 2 == 0, "Choice", '"abc","defg"'))
            catalogue.append(integer_field(name, -index, 10**index, not empty))
            catalogue.append(decimal_field(name, ["", "0...99.99", "-99.999...100", "0.5...0.9", "-1.50...1.5, 7...9.25"][index % 5], empty))
            catalogue.append(text_field(name, "...7", 7, not empty, "Choice", '"a","b"'))
        for count in range(1, 7):
            for start in range(0, len(catalogue)):
                chosen, seen = [], set()
                for field in catalogue[start:] + catalogue[:start]:
                    if field["name"] not in seen:
                        chosen.append(field)
                        seen.add(field["name"])
                    if len(chosen) == count:
                        break
                cases.append({"dialect": dialect, "fields": chosen})
        # every reserved word of the dialect (and of the other dialects) as a field name, 12 per CID, in lower, upper and title case
        import keyword as python_keywords

        words = sorted(w for w in set().union(*KEYWORDS.values()) if w.isidentifier() and w.isascii() and not python_keywords.iskeyword(w) and not python_keywords.iskeyword(w.lower()))
        for style_index, style in enumerate((str.lower, str.upper, str.title)):
            styled = [style(w) for w in words if not python_keywords.iskeyword(style(w))]
            for start in range(0, len(styled), 12):
                if style_index and (start // 12) % 4 != style_index:
                    continue  # upper and title case: a quarter of the words each
                chunk = styled[start:start + 12]
                cases.append({"dialect": dialect, "fields": [text_field(name, "...9", 9, index % 2 == 0) for index, name in enumerate(chunk)]})
        if thorough:
            # every ordered pair of declarations with different names, and every ordered triple over half of the catalogue:
            # whatever one column leaves behind for the next one shows up in some order
            for first, second in itertools.permutations(catalogue, 2):
                if first["name"] != second["name"]:
                    cases.append({"dialect": dialect, "fields": [first, second]})
            for triple in itertools.permutations(catalogue[::2], 3):
                if len({f["name"] for f in triple}) == 3:
                    cases.append({"dialect": dialect, "fields": list(triple)})
    return cases


def interleaved(cases):
    """Reorder so that the same CID is rendered for all four dialects one after the other, starting with a different
    dialect each time: anything one dialect leaves behind for the next one (shared caches) then shows up in every worker."""
    groups = {}
    for case in cases:
        key = repr(case["fields"])
        groups.setdefault(key, []).append(case)
    ordered = []
    for number, group in enumerate(groups.values()):
        shift = number % len(group)
        ordered.extend(group[shift:] + group[:shift])
    return ordered


def create_option_case(case, part):
    """The command line's --create with the CID stored as csv, ods and xlsx: it writes <cid>_create.sql holding the ANSI statement of that CID."""
    import csv

    from cutplace import applications, sql

    from mc import readermachine
    from mc.props import c17

    rows = [["D", "Format", "Delimited"]] + [["F", f["name"], "", "X" if f["empty"] else "", f.get("length", ""), f["type"], f.get("rule", "")] for f in case["fields"]]
    part.evaluations += 1
    part.nontrivial += 1
    for storage in case["create"]:
        path = c17.store_rows(rows, storage, "createcid")
        target = os.path.splitext(path)[0] + "_create.sql"
        if os.path.exists(target):
            os.remove(target)
        try:
            code = applications.main(["cutplace", "--create", path])
        except SystemExit as error:
            code = "exit:%s" % error.code
        except Exception as error:
            code = "raised-" + type(error).__name__
        part.transitions += 1
        part.validated += 1
        try:
            expected = sql.SqlFactory(harness.make_cid(rows), os.path.splitext(os.path.basename(path))[0]).create_table_statement()
        except Exception as error:
            part.fail("create-option|statement-not-generated:" + type(error).__name__, case, "statement", repr(error))
            return
        written = open(target, encoding="utf-8").read() if os.path.exists(target) else None
        if code != 0 or written != expected:
            part.fail("create-option|cid-stored-as-%s|%s" % (storage, "exit-%s" % code if code != 0 else "statement-differs"), case, expected, {"exit": code, "written": written})


def work(item):
    part = Part()
    for case in item:
        if "create" in case:
            create_option_case(case, part)
            continue
        judge(case, part)
        if len(case["fields"]) > 1 or case["fields"][0].get("range", [0])[0] < 0:
            part.nontrivial += 1
    part.sample(item[len(item) // 2], limit=1)
    return part


def run(ctx):
    cases = interleaved(all_cases(ctx.tier))
    multi = [case for case in cases if len(case["fields"]) >= 3 and case["dialect"] == "ANSI" and not case.get("props") and not case.get("checks") and not any("default" in f for f in case["fields"])]
    cases += [dict(case, create=["csv", "ods", "xlsx"]) for case in multi[:: max(1, len(multi) // 12)][:12]]
    ctx.pmap(MOD, "work", engine.chunks(cases, 120), label="C19")
    ctx.bound = {"cases": len(cases), "integer ranges": "all %d pairs lo <= hi over the boundary set of %d values x 4 dialects, plus length-derived and default ranges" % (len(BOUNDARY) * (len(BOUNDARY) + 1) // 2, len(BOUNDARY)),
                 "CIDs": "1..6 fields over a catalogue of 40 typed declarations with 10 names (keywords of every dialect included), empty flag both ways" + ("; every ordered pair and (over half of the catalogue) triple of declarations" if ctx.tier == "thorough" else ""), "dialects": ["ANSI", "DB2", "Transact-SQL", "PL/SQL"]}
    ctx.rule = ("the statement is parsed back line by line: one column per field in order, name quoted iff in the dialect's own keyword list, 'not null' iff not allowed to be empty, Integer capacity by the dialect's type semantics "
                "(decimal / number capacities compared by digit counts), Decimal (total, fraction digits), text upper length; non-trivial = multi-column CIDs and ranges with a negative limit; states = distinct statement shapes")
    ctx.assumptions = ["ANSI and PL/SQL 'int' are implementation defined / NUMBER(38) and never alarm", "open integer ranges are outside the statement (bounded ranges only)"]
