"""C20 — user-defined field formats and checks are driven by the documented call protocol.

Recording subclasses (mc/recording.py) are resolved through ordinary CID rows; the recorded call
sequence of 1-2 runs (reader in three modes with limit, reader with explicit close inside a with
block, abandoned reader, writer with double close) on one CID must equal the sequence predicted by
mc/models/protocol.py.  Explorer (H): BFS over the table of the last run with product-state merging
plus plain enumeration of all short tables; a plugin-folder scenario runs in a subprocess.
"""
import io
import itertools
import json
import os
import subprocess
import sys

from mc import engine, harness, readermachine, repo
from mc.core import Part
from mc.models import protocol

MOD = "mc.props.c20"
ALLOWED = [[32, 33, False], [97, 122, False]]
ALLOWED_WIDE = [[32, 126, False]]
ALLOWED_NO_BLANK = [[33, 33, True], [97, 122, False]]
ALLOWED_DESCENDING = [[97, 122, False], [32, 33, False]]  # the same characters as ALLOWED, the higher part declared first


def allowed_items(config):
    return {"wide": ALLOWED_WIDE, "noblank": ALLOWED_NO_BLANK, "descending": ALLOWED_DESCENDING}.get(config.get("allowed"), ALLOWED)
CELLS = ["ab", "", "a!", "abcd", "A", " ", "b"]


def decls_for(config):
    decls = []
    for index, (empty, size) in enumerate(config["fields"]):
        decl = {"type": "VerifRec", "name": "f%d" % index, "empty": bool(empty), "preset": config["preset"]}
        if config["preset"] == "fixed":
            decl["width"] = size[2] if isinstance(size, tuple) else size
        elif isinstance(size, tuple):  # (n, lower, upper): the multi-part length "n, lower...upper" with a gap in between
            decl["length"] = [[size[0], size[0], True], [size[1], size[2], False]]
            if len(size) == 4:  # (n, lower, upper, "descending"): the same parts written as "lower...upper, n"
                decl["length"].reverse()
        elif size:
            decl["length"] = [[1, size, False]]
        if config.get("allowed"):
            decl["allowed"] = allowed_items(config)
        decls.append(harness.complete(decl))
    return decls


def make_cid(config, decls, type_name="VerifRec", check_type="VerifProto"):
    rows = harness.cid_rows(config["preset"], decls, [[name, check_type, rule] for name, rule in zip(protocol.check_names(len(config["checks"])), config["checks"])], config["header"],
                            allowed=allowed_items(config) if config.get("allowed") else None, line_delimiter=config.get("line_delimiter", "lf"), allowed_after_fields=bool(config.get("allowed_after")),
                            extra=[("Encoding", config["encoding"])] if config.get("encoding") else [])
    for row in rows:
        if row[0] == "F":
            row[5] = type_name
    return rows


def data_text(config, decls, table):
    if config["preset"] == "fixed":
        return "".join("".join(c.ljust(d["width"]) for c, d in zip(row, decls)) + ("" if config.get("line_delimiter") == "none" else "\n") for row in table)
    return "".join(",".join(row) + "\n" for row in table)


def execute(cid, config, decls, run):
    import cutplace

    m = harness.modules()
    errors = m["errors"]
    kind = run["kind"]
    if kind == "writer":
        writer = cutplace.Writer(cid, io.StringIO(newline=""))
        from mc import recording

        for row in run["table"]:
            try:
                writer.write_row(list(row))
            except errors.CutplaceError:
                pass
            except Exception as error:  # anything else is no part of the protocol: make it visible in the log
                recording.LOG.append(["writer", "raised", type(error).__name__])
        for _ in range(2):
            try:
                writer.close()
            except errors.CutplaceError:
                pass
        return
    source = harness.NamedStringIO(data_text(config, decls, run["table"]), "data.txt")
    mode, limit = run.get("mode", "raise"), run.get("limit")
    if kind == "reader":
        try:
            for _ in cutplace.rows(cid, source, on_error=mode, validate_until=limit):
                pass
        except errors.CutplaceError:
            pass
    elif kind == "reader_explicit_close":
        try:
            with cutplace.Reader(cid, source, on_error=mode, validate_until=limit) as reader:
                try:
                    for _ in reader.rows():
                        pass
                except errors.DataError:
                    pass
                reader.close()
        except errors.CutplaceError:
            pass
    elif kind == "validate":
        try:
            cutplace.validate(cid, source)
        except errors.CutplaceError:
            pass
    elif kind == "abandon":
        generator = None
        try:
            generator = cutplace.rows(cid, source, on_error="yield")
            for _ in range(run["after"]):
                next(generator)
        except (StopIteration, errors.CutplaceError):
            pass
        try:
            if generator is not None:
                generator.close()
        except errors.CutplaceError:
            pass
    else:
        raise ValueError(kind)


def model_run(config, run):
    """The run as the protocol model sees it."""
    if run["kind"] == "abandon":
        keep = config["header"] + run["after"]
        return {"kind": "reader", "mode": "yield", "limit": None, "table": run["table"][:keep]}
    if run["kind"] == "validate":
        return {"kind": "reader", "mode": "raise", "limit": None, "table": run["table"]}
    if run["kind"] == "reader_explicit_close":
        return dict(run, kind="reader")
    return run


def representable(config, decls, table):
    if config["preset"] == "fixed":
        return all(len(row) == len(decls) and all(len(c) <= d["width"] for c, d in zip(row, decls)) for row in table)
    # a row consisting of one empty cell is written as an empty line, which the reader sees as a row without items
    return not any(len(row) == 1 and row[0] == "" for row in table) and not any(len(row) == 0 for row in table)


def judge(case, part):
    from mc import recording

    if "runs" not in case:  # replay of a plugin-folder scenario
        return plugin_case(case, part)
    config = case["config"]
    decls = decls_for(config)
    tag = "%s|%%s" % config["preset"]
    part.evaluations += 1
    cid = harness.make_cid(make_cid(config, decls))
    del recording.LOG[:]
    ok, detail, recorded = True, None, []
    if any("config" in run for run in case["runs"]):
        # runs on different CIDs in one process: each run is judged against its own CID
        for run in case["runs"]:
            run_config = run.get("config", config)
            run_decls = decls_for(run_config)
            run_cid = harness.make_cid(make_cid(run_config, run_decls))
            del recording.LOG[:]
            execute(run_cid, run_config, run_decls, run)
            part.transitions += 1 + len(run["table"])
            recorded = [list(entry) for entry in recording.LOG]
            ok, detail = protocol.matches(recorded, run_decls, run_config["checks"], run_config["header"], [model_run(run_config, run)])
            if not ok:
                break
    else:
        if case.get("up_front"):
            # every Reader is constructed before the first one is consumed: each data set still gets its own reset, rows, verdict, clean-up
            import cutplace

            errors = harness.modules()["errors"]
            readers = [cutplace.Reader(cid, harness.NamedStringIO(data_text(config, decls, run["table"]), "data.txt"), on_error=run["mode"], validate_until=run.get("limit")) for run in case["runs"]]
            for reader, run in zip(readers, case["runs"]):
                try:
                    for _ in reader.rows():
                        pass
                except errors.DataError:
                    pass
                try:
                    reader.close()
                except errors.CutplaceError:
                    pass
                part.transitions += 1 + len(run["table"])
        else:
            for run in case["runs"]:
                execute(cid, config, decls, run)
                part.transitions += 1 + len(run["table"])
        recorded = [list(entry) for entry in recording.LOG]
        runs = [model_run(config, run) for run in case["runs"]]
        ok, detail = protocol.matches(recorded, decls, config["checks"], config["header"], runs)
    part.validated += 1
    if any(run["table"] for run in case["runs"]) or config["checks"]:
        part.nontrivial += 1
    part.outcome("log-length-%d" % min(len(recorded), 12))
    if not ok:
        kinds = ("constructed-up-front:" if case.get("up_front") else "") + "+".join(run["kind"] + (":" + run["mode"] if run["kind"].startswith("reader") else "") + ("@other-cid" if "config" in run else "") for run in case["runs"])
        part.fail(tag % ("call-sequence-differs|" + kinds), case, detail, recorded[:40])
    # state of the last run as far as the implementation showed it: rows fed, value hooks and row checks performed
    last = case["runs"][-1]
    return (len(last["table"]), sum(1 for e in recorded if e[1] == "value"), sum(1 for e in recorded if e[1] == "row"))


def row_pool(config, decls):
    cells = CELLS
    if config.get("encoding"):
        # characters that take several bytes in the declared encoding: lengths and widths count characters
        cells = ["\xe4b", "", "\u20ac!", "\xe4bc\xfc", "b"]
    if config.get("allowed") == "noblank":
        # fixed cells that are blank-only while blanks are not allowed are not settled by the statement: leave them out
        cells = [c for c in cells if c.strip(" ") != ""]
    pool = [list(t) for t in itertools.product(cells, repeat=len(decls))]
    if config["preset"] != "fixed":
        pool.append(["ab"] * (len(decls) + 1))
        if len(decls) > 1:
            pool.append(["ab"] * (len(decls) - 1))
    return [row for row in pool if representable(config, decls, [row])]


def run_variants(tier):
    variants = []
    for mode in ("raise", "yield", "continue"):
        for limit in (None, 0, 1, 2, 3):
            variants.append({"kind": "reader", "mode": mode, "limit": limit})
    variants.append({"kind": "reader_explicit_close", "mode": "yield", "limit": None})
    variants.append({"kind": "reader_explicit_close", "mode": "raise", "limit": None})
    variants.append({"kind": "validate"})
    variants.append({"kind": "abandon", "after": 1})
    variants.append({"kind": "writer"})
    return variants


def configs(tier):
    result = []
    for preset in ("delimited", "fixed"):
        for header in (0, 1, 2):
            for fields in ([(False, 3)], [(True, 4), (False, 2)], [(False, 2), (True, 3), (False, 3)], [(False, (1, 3, 4)), (True, 4)], [(False, (1, 3, 4, "descending")), (True, 4)]):
                if isinstance(fields[0][1], tuple) and (preset == "fixed" or tier == "quick" and header == 2):
                    continue
                for checks in ([], ["ok"], ["veto:ab", "ok"], ["ok", "end", "ok"], ["end", "veto:b"]):
                    for allowed in (False, True) + (("noblank",) if preset == "fixed" and len(fields) < 3 else ()) + (("descending",) if header < 2 and len(fields) == 2 and len(checks) in (0, 2) else ()):
                        if tier == "quick" and (header == 2 or len(fields) == 3) and (allowed or len(checks) == 1):
                            continue
                        result.append({"preset": preset, "header": header, "fields": fields, "checks": checks, "allowed": allowed})
                        if allowed is True and header == 0 and len(checks) in (0, 2):
                            # the allowed-characters row declared behind the field rows: it applies all the same
                            result.append({"preset": preset, "header": header, "fields": fields, "checks": checks, "allowed": allowed, "allowed_after": True})
    for preset in ("fixed", "delimited"):
        result.append({"preset": preset, "header": 0, "fields": [(True, 4), (False, 2)], "checks": ["ok"], "allowed": False, "encoding": "utf-8"})
    # fixed data without line delimiter behind one and two header records
    for header in (1, 2):
        result.append({"preset": "fixed", "header": header, "fields": [(True, 4), (False, 2)], "checks": ["ok", "veto:b"], "allowed": False, "line_delimiter": "none"})
    # every field may be empty: a row of empty cells is an accepted row that every check sees
    result.append({"preset": "delimited", "header": 1, "fields": [(True, 4), (True, 2)], "checks": ["ok", "veto:b"], "allowed": False})
    return result


def explore(item):
    config, depth, enumerate_depth = item
    part = Part()
    decls = decls_for(config)
    pool = row_pool(config, decls)
    if len(decls) > 1:
        # one representative row per (first rejecting column, reason) class plus accepted rows
        seen, reduced = set(), []
        for row in pool:
            key = tuple("ok" if c in ("ab", "b") else c for c in row)
            first_bad = next((i for i, c in enumerate(key) if c != "ok"), None)
            klass = (first_bad, key[first_bad] if first_bad is not None else tuple(row), len(row))
            if klass not in seen or all(c == "" for c in row):  # the row of empty cells only always stays
                seen.add(klass)
                reduced.append(row)
        pool = reduced
    header_rows = [["ab"] * len(decls)] * config["header"] if config["preset"] != "fixed" else [["a!"[: d["width"]] for d in decls]] * config["header"]
    for variant in run_variants("quick"):
        def run(history, variant=variant):
            table = header_rows + [pool[i] for i in history]
            return judge({"config": config, "runs": [dict(variant, table=table)]}, part)

        engine.bfs(run, list(range(len(pool))), part, max_depth=depth, max_states=3000)
        # plain enumeration of all short tables
        for length in range(0, enumerate_depth + 1):
            for indexes in itertools.product(range(len(pool)), repeat=length):
                judge({"config": config, "runs": [dict(variant, table=header_rows + [pool[i] for i in indexes])]}, part)
    # writer only: values that are too long only because of surrounding blanks (a reader never sees such cells)
    if config["preset"] == "fixed":
        writer = {"kind": "writer"}
        padded = [[(" " + c + "  ") if index == column else c for index, c in enumerate(pool[0])] for column in range(len(decls))]
        padded += [[c + " " * 4 for c in pool[0]]]
        for rows in ([r] for r in padded):
            judge({"config": config, "runs": [dict(writer, table=header_rows + rows + [pool[0]])]}, part)
    # writer only: header rows whose cells hold line breaks or are ragged still count as one row each
    if config["preset"] != "fixed" and config["header"]:
        for cell in ("a\nb", "a\r\nb\nc", "\n"):
            odd_header = [[cell] + ["ab"] * (len(decls) - 1)] * config["header"]
            for rows in ([], pool[:1], pool[:3]):
                judge({"config": config, "runs": [{"kind": "writer", "table": odd_header + [list(r) for r in rows]}]}, part)
    # two runs on one CID
    short_tables = [header_rows + [pool[i] for i in indexes] for length in (0, 1) for indexes in itertools.product(range(min(len(pool), 4)), repeat=length)]
    seconds = [v for v in run_variants("quick") if v.get("limit") in (None,) ]
    for first in seconds:
        for second in seconds:
            for table_a in short_tables[:3]:
                for table_b in short_tables[:3]:
                    judge({"config": config, "runs": [dict(first, table=table_a), dict(second, table=table_b)]}, part)
    # two or three Readers constructed up front on one CID, consumed one after the other
    readers_only = [v for v in seconds if v["kind"] == "reader"]
    for first in readers_only:
        for second in readers_only:
            for table_a in short_tables[:3]:
                for table_b in short_tables[:3]:
                    judge({"config": config, "up_front": True, "runs": [dict(first, table=table_a), dict(second, table=table_b)]}, part)
        judge({"config": config, "up_front": True, "runs": [dict(first, table=short_tables[1]), dict(first, table=short_tables[2]), dict(first, table=short_tables[1])]}, part)
    # runs on two different CIDs in one process (the other CID differs in its allowed characters, empty flags or checks)
    others = [dict(config, allowed="wide"), dict(config, allowed=False), dict(config, fields=[(not e, s) for e, s in config["fields"]]), dict(config, checks=list(reversed(config["checks"])) + ["ok"])]
    cross_tables = [header_rows + [pool[i] for i in indexes] for indexes in ([], list(range(len(pool))), list(range(len(pool) - 1, -1, -1)))]
    for other in others:
        if other == config:
            continue
        other_decls = decls_for(other)
        for first in (seconds[1], seconds[-1]):
            for second in (seconds[1], seconds[2], seconds[-1]):
                for table in cross_tables:
                    if not representable(other, other_decls, table):
                        continue
                    judge({"config": config, "runs": [dict(first, table=table, config=other), dict(second, table=table, config=config)]}, part)
    part.state((json.dumps(config),))
    part.sample({"config": config, "runs": [dict(run_variants("quick")[3], table=header_rows + pool[:2])]}, limit=1)
    return part


PLUGIN_DRIVER = r'''
import sys, json, io, warnings
warnings.simplefilter("ignore")
sys.path.insert(0, sys.argv[1])
import logging; logging.disable(logging.CRITICAL)
import cutplace
from cutplace import interface, errors
spec = json.loads(sys.argv[3])
if "cli" in spec:
    # the command line front end: it imports the plugin folder itself and passes --until down
    import csv, os
    from cutplace import applications, fields
    cid_path = os.path.join(os.path.dirname(sys.argv[2]), "plugin_cid.csv")
    data_path = os.path.join(os.path.dirname(sys.argv[2]), "plugin_data.txt")
    with open(cid_path, "w", newline="", encoding="utf-8") as stream:
        csv.writer(stream).writerows(spec["cid"])
    with open(data_path, "w", newline="", encoding="cp1252") as stream:
        stream.write(spec["data"])
    arguments = ["cutplace", "--plugins", sys.argv[2]] + (["--until", str(spec["cli"]["until"])] if spec["cli"]["until"] is not None else []) + [cid_path, data_path]
    try:
        applications.main(arguments)
    except SystemExit:
        pass
    field_class = [c for c in fields.AbstractFieldFormat.__subclasses__() if c.__name__ == "PluginRecFieldFormat"][-1]
else:
    interface.import_plugins(sys.argv[2])
    import gc
    gc.collect()  # a collection may run at any moment: imported plugins stay available all the same
    cid = interface.Cid()
    cid.read("cid.csv", spec["cid"])
    try:
        for _ in cutplace.rows(cid, io.StringIO(spec["data"], newline=""), on_error=spec["mode"]):
            pass
    except errors.CutplaceError:
        pass
    field_class = type(cid.field_formats[0])
# the plugin module is not registered in sys.modules by import_plugins: find its LOG through the classes
log = sys.modules[field_class.__module__].LOG if field_class.__module__ in sys.modules else field_class.validated_value.__globals__["LOG"]
print("PLUGIN-LOG " + json.dumps(log))
'''


def plugin_case(case, part):
    from mc import recording

    config = case["config"]
    decls = decls_for(config)
    folder = os.path.join(readermachine.tmpdir(), case.get("folder", "plugins"))
    os.makedirs(folder, exist_ok=True)
    with open(os.path.join(folder, "verif_plugin.py"), "w") as plugin_file:
        plugin_file.write(recording.PLUGIN_SOURCE)
    rows = make_cid(config, decls, "PluginRec", "PluginProto")
    spec = {"cid": rows, "data": data_text(config, decls, case["table"]), "mode": case["mode"]}
    if "cli" in case:
        spec["cli"] = case["cli"]
    done = subprocess.run([sys.executable, "-c", PLUGIN_DRIVER, repo.REPO, folder, json.dumps(spec)], capture_output=True, text=True, timeout=120)
    part.evaluations += 1
    part.transitions += 1
    part.validated += 1
    part.nontrivial += 1
    marker = [line for line in done.stdout.splitlines() if line.startswith("PLUGIN-LOG ")]
    if not marker:
        part.fail("plugin|classes-from-plugin-folder-not-usable%s" % (":folder=" + case["folder"] if "folder" in case else ""), case, "call log", (done.stdout + done.stderr)[-600:])
        return
    recorded = json.loads(marker[-1][len("PLUGIN-LOG "):])
    ok, detail = protocol.matches(recorded, decls, config["checks"], config["header"], [{"kind": "reader", "mode": case["mode"], "limit": case["cli"]["until"] if "cli" in case else None, "table": case["table"]}])
    if not ok:
        part.fail("plugin|call-sequence-differs%s" % (":command-line --until %s" % case["cli"]["until"] if "cli" in case else ""), case, detail, recorded[:40])


def plugins(item):
    part = Part()
    for case in item:
        plugin_case(case, part)
    return part


_LATE = [0]


def late_classes(item):
    """Classes the user defines *after* CIDs have been loaded in the same process resolve by name like those defined before
    (a long-running service defines formats as its modules are imported): load a CID with built-ins, define a field format and
    a check, load a CID naming them, validate through them; then once more with further names (nothing resolved earlier is final)."""
    m = harness.modules()
    fields, checks, errors = m["fields"], m["checks"], m["errors"]
    import cutplace

    part = Part()
    for preset in item:
        for round_number in range(3):
            _LATE[0] += 1
            stem = "Late%dx%d" % (os.getpid(), _LATE[0])
            case = {"preset": preset, "round": round_number, "class": stem}
            part.evaluations += 1
            part.transitions += 1
            head = [["D", "Format", preset]] + ([["D", "Line delimiter", "LF"]])
            width = "2" if preset == "Fixed" else ""
            # any CID loaded before the classes exist
            harness.make_cid(head + [["F", "a", "", "", width, "Integer", "0...99"], ["C", "u", "IsUnique", "a"]])
            seen = []

            def validated_value(self, value, seen=seen):
                seen.append(value)
                if value == "no":
                    raise errors.FieldValueError("refused")
                return value

            def check_row(self, field_name_to_value_map, location, seen=seen):
                seen.append(sorted(field_name_to_value_map))

            field_class = type(stem + "FieldFormat", (fields.AbstractFieldFormat,), {
                "__init__": lambda self, field_name, is_allowed_to_be_empty, length, rule, data_format: fields.AbstractFieldFormat.__init__(self, field_name, is_allowed_to_be_empty, length, rule, data_format, empty_value=""),
                "validated_value": validated_value})
            check_class = type(stem + "Check", (checks.AbstractCheck,), {"check_row": check_row})
            try:
                cid = harness.make_cid(head + [["F", "a", "", "", width, stem], ["C", "c", stem, ""]])
            except errors.InterfaceError as error:
                part.fail("late-classes|%s|not-resolved-by-name" % preset.lower(), case, "CID naming classes defined after an earlier CID was loaded is accepted", str(error)[:300])
                continue
            part.validated += 1
            part.nontrivial += 1
            outcome = []
            for row in cutplace.rows(cid, io.StringIO("ok\nno\nab\n", newline=""), on_error="yield"):
                outcome.append("rejected" if isinstance(row, Exception) else list(row))
            expected = [["ok"], "rejected", ["ab"]]
            part.outcome("late:%s" % ("as-expected" if outcome == expected else "differs"))
            if outcome != expected or type(cid.field_formats[0]) is not field_class or seen != ["ok", ["a"], "no", "ab", ["a"]]:
                part.fail("late-classes|%s|not-driven-like-classes-defined-up-front" % preset.lower(), case, [expected, ["ok", ["a"], "no", "ab", ["a"]]], [outcome, seen])
            del field_class, check_class
    return part


def run(ctx):
    quick = ctx.tier == "quick"
    items = [(config, 4 if quick else 6, 1 if quick else 2) for config in configs(ctx.tier)]
    ctx.pmap(MOD, "explore", items, label="C20")
    plugin_cases = []
    for preset in ("delimited", "fixed"):
        config = {"preset": preset, "header": 1, "fields": [(True, 4), (False, 2)], "checks": ["veto:ab", "end", "ok"], "allowed": False}
        tables = [[["ab", "b"], ["b", "b"], ["ab", "b"], ["", "a!"], ["b", "ab"]], [["ab", "b"]], []]
        for table in tables[: (2 if quick else 3)]:
            for mode in ("yield", "raise") if not quick else ("yield",):
                plugin_cases.append({"config": config, "table": table, "mode": mode})
    # the command line with --plugins and --until: rows behind the limit cause no calls
    for until in (None, 0, 1, 2, 3, 4, 9):
        plugin_cases.append({"config": dict(config, preset="delimited"), "table": tables[0], "mode": "raise", "cli": {"until": until}})
    # folder names holding characters that mean something to glob patterns or shells
    for folder in ("plug[1]", "plug ins", "plug*in?", "[plugins]"):
        plugin_cases.append({"config": dict(config, preset="delimited"), "table": tables[1], "mode": "yield", "folder": folder})
    ctx.pmap(MOD, "plugins", [[c] for c in plugin_cases], label="C20 plugins")
    ctx.pmap(MOD, "late_classes", [["Delimited"], ["Fixed"]], label="C20 classes defined after a CID was loaded")
    ctx.bound = {"configurations": len(items), "fields": "1..3 recording fields (empty flag, length / width, allowed characters varied)", "checks": "0..3 recording checks (accepting, vetoing a row, failing at the end)",
                 "runs": "reader x 3 modes x limit {none,0..3}, reader with explicit close inside with, validate, abandoned reader, writer with double close; all pairs of runs on one CID over short tables",
                 "tables": "BFS to depth %d with merging and every table up to %d rows enumerated" % (4 if quick else 6, 1 if quick else 2), "header": "0..2",
                 "plugin folder": "%d scenarios in subprocesses (import_plugins + Cid.read + rows)" % len(plugin_cases)}
    ctx.rule = ("the recorded call sequence of recording subclasses must equal the sequence predicted by the protocol model (resets and cleanups compared as unordered blocks; after a failing "
                "end-of-data verdict later verdicts may or may not be asked); non-trivial = case with rows or checks; states = configurations")
    ctx.assumptions = ["a reader abandoned before its first row causes no calls at all (not enumerated)", "check_row receives the raw cells (padded in fixed data when reading, as written when writing)"]
