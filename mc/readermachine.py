"""Shared driver of the reader machine (C04, C05, C06, C07, C17): field catalogue, storage of a
table in each data format, execution of one run on the real Reader and comparison helpers."""
import atexit
import csv
import io
import os
import re
import shutil
import tempfile

from mc import harness, snapshot
from mc.models import odf, rowmodel

# name -> (declaration, fixed width, accepted cells, rejected cells)
CATALOGUE = {
    "id": ({"type": "Integer", "rule": {"items": [[0, 99, False]]}}, 3, ["1", "2", "3", "42", "0"], ["x", "100", "-1", "3.0", "\xb2"]),  # superscript two: a digit to str.isdigit(), no number to int()
    "name": ({"type": "Text", "length": [[1, 3, False]]}, 3, ["ab", "c", "xyz"], ["", "abcd", "a%sd"]),
    # percent signs in the declared choices and in rejected cells (messages are built from them)
    "pct": ({"type": "Choice", "rule": {"choices": ["0%", "10%", "%s"], "quoted": True}}, 3, ["0%", "10%", "%s"], ["5%", "%d", "100%"]),
    "kind": ({"type": "Choice", "empty": True, "rule": {"choices": ["a", "b"], "quoted": True}}, 1, ["a", "b", ""], ["q", "A"]),
    "amount": ({"type": "Decimal", "rule": {"items": [["0", "99.99", False]]}}, 6, ["1.5", "1.50", "7.0", "99.99", "0"], ["100", "1,5", "NaN", "-sNaN", "Inf"]),  # 1.5 and 1.50: equal numbers, different texts (checks see the text)
    "day": ({"type": "DateTime", "rule": {"parts": ["DD", "MM", "YYYY"], "seps": [".", "."]}}, 10, ["01.02.2000", "29.02.2024"], ["31.02.2000", "x"]),
    "stamp": ({"type": "DateTime", "rule": {"parts": ["YYYY", "MM", "DD", "hh", "mm", "ss"], "seps": ["-", "-", " ", ":", ":"]}}, 19,
              ["2021-03-06 00:00:00", "2021-03-06 13:14:15", "1999-12-31 23:59:59"], ["2021-03-06", "2021-13-06 00:00:00"]),
    "code": ({"type": "Pattern", "rule": {"tokens": ["a", "?", "c", "*"]}}, 5, ["abc", "aXcdd"], ["ab", "xbc"]),
    "tag": ({"type": "RegEx", "rule": {"ast": ["seq", [["+", ["set", False, "ab"]], ["lit", "c"]]]}}, 3, ["abc", "bc"], ["c", "xc"]),
    "const": ({"type": "Constant", "rule": {"token": "K", "style": "str"}}, 1, ["K"], ["k", "Q"]),
    "note": ({"type": "Text", "empty": True}, 4, ["", "v2.0", "zz", "n"], []),
    "ka": ({"type": "Text", "length": [[1, 1, True]]}, 1, ["x", "y"], ["", "xx"]),
    "kb": ({"type": "Text", "length": [[1, 2, False]]}, 2, ["x", "y"], [""]),
    # values that differ only in where the blank sits: distinct keys in every format (fixed: 'x ' / ' x' once padded)
    "kl": ({"type": "Text", "length": [[1, 2, False]]}, 2, ["x", " x", "y", " y"], [""]),
    # keys holding a tab: ("so\tuth", "lee") and ("so", "uth\tlee") are different keys although their texts joined by a tab are equal
    "kt1": ({"type": "Text", "length": [[1, 6, False]]}, 6, ["so\tuth", "so", "x"], [""]),
    "kt2": ({"type": "Text", "length": [[1, 7, False]]}, 7, ["lee", "uth\tlee"], [""]),
    # keys holding a comma and a blank: distinct pairs that read alike when written as a list
    "kc1": ({"type": "Text", "length": [[1, 4, False]]}, 4, ["a, b", "a"], [""]),
    "kc2": ({"type": "Text", "length": [[1, 4, False]]}, 4, ["c", "b, c"], [""]),
    "KA": ({"type": "Text", "length": [[1, 2, False]]}, 2, ["x", "y"], [""]),  # declared next to 'ka': names are case sensitive
    "kc": ({"type": "Integer", "rule": {"items": [[0, 9, False]]}}, 1, ["1", "2"], ["z"]),
    "v": ({"type": "Text", "length": [[1, 1, True]]}, 1, ["p", "q", "r", "s", "t"], [""]),
    "memo": ({"type": "Text", "length": [[1, 40, False]]}, 32, ["\nbig  red\n\nbox", "very  fragile\u2028handle with care\x85", "a\tb c"], [""]),
    "num": ({"type": "Integer", "length": [[1, 2, False]]}, 2, ["5", "-5", "77"], ["123", "y"]),
}
_TMP = None


def tmpdir():
    global _TMP
    if _TMP is None or not os.path.isdir(_TMP) or _TMP_PID != os.getpid():
        _make_tmp()
    return _TMP


def _make_tmp():
    global _TMP, _TMP_PID
    root = os.environ.get("VERIF_TMP")
    if root and os.path.isdir(root):
        _TMP = tempfile.mkdtemp(prefix="w%d_" % os.getpid(), dir=root)  # removed with the run's scratch directory
    else:
        _TMP = tempfile.mkdtemp(prefix="cutplace_verif_%d_" % os.getpid())
        atexit.register(shutil.rmtree, _TMP, True)
    _TMP_PID = os.getpid()


_TMP_PID = None


def decls_for(config):
    decls = []
    for name in config["fields"]:
        base, width, _, _ = CATALOGUE[name]
        decl = dict(base, name=name, preset=config["preset"])
        if config["preset"].startswith("fixed"):
            decl.pop("length", None)
            decl["width"] = width
        if config.get("allowed"):
            decl["allowed"] = config["allowed"]  # the data format's allowed characters apply to every field
        decls.append(harness.complete(decl))
    return decls


def cid_rows_of(config, decls=None):
    decls = decls or decls_for(config)
    extra = list(config.get("extra", ()))
    return harness.cid_rows(config["preset"], decls, config.get("checks", ()), config.get("header", 0), extra=extra, allowed=config.get("allowed"), allowed_quoted=bool(config.get("allowed_quoted")),
                            line_delimiter=config.get("line_delimiter", "lf") if config["preset"] in ("delimited", "fixed", "delimited_de", "delimited_us", "fixed_de") else None)


def make_cid(config, decls=None):
    return harness.make_cid(cid_rows_of(config, decls))


def store(config, decls, table, name="data"):
    """Store the table in the config's format. -> (source for the reader, basename expected in messages)."""
    fmt = decls[0]["fmt"]
    if fmt == "delimited":
        delimiter = ";" if config["preset"] in ("delimited_de", "delimited_comma") else ","
        stream = io.StringIO()
        writer = csv.writer(stream, delimiter=delimiter, quotechar='"', lineterminator="\n", quoting=csv.QUOTE_MINIMAL)
        for row in table:
            writer.writerow(row)
        return harness.NamedStringIO(stream.getvalue(), name + ".csv"), name + ".csv"
    if fmt == "fixed":
        text = "".join("".join(cell.ljust(decl["width"]) for cell, decl in zip(row, decls)) + ("" if config.get("line_delimiter") == "none" else config.get("line_end", "\n")) for row in table)
        return harness.NamedStringIO(text, name + ".txt"), name + ".txt"
    if fmt == "ods":
        path = os.path.join(tmpdir(), name + ".ods")
        sheets = [[["other sheet"]]] * (config.get("sheet", 1) - 1) + [table]
        odf.write_ods(path, sheets, config.get("odf", {}))
        return path, name + ".ods"
    if fmt == "excel":
        import xlsxwriter

        path = os.path.join(tmpdir(), name + ".xlsx")
        workbook = harness.new_workbook(path)
        for _ in range(config.get("sheet", 1) - 1):
            workbook.add_worksheet().write_string(0, 0, "other sheet")
        sheet = workbook.add_worksheet()
        for y, row in enumerate(table):
            for x, cell in enumerate(row):
                if cell != "":
                    sheet.write_string(y, x, cell)
        workbook.close()
        return path, name + ".xlsx"
    raise ValueError(fmt)


def representable(fmt, decls, table):
    """Can the table be stored in the format at all (fixed: exact widths, no ragged rows)?"""
    if fmt == "fixed":
        return all(len(row) == len(decls) and all(len(c) <= d["width"] for c, d in zip(row, decls)) for row in table)
    return True


CHECK_IGNORE = ("_field_names", "_description", "_rule", "_location", "_location_of_rule", "_expression", "_field_name_to_count", "_field_names_to_check")


def check_snapshot(cid):
    return tuple((name, snapshot.snap(check, ignore=CHECK_IGNORE)) for name, check in cid.check_map.items())  # (no lookup by name: the map is the CID's own business)


def run_reader(cid, source, mode="yield", limit=None, close=True, reader=None):
    """One run on the real Reader (or on an already constructed one). -> observation dict (JSON-able apart from 'snapshot')."""
    m = harness.modules()
    errors = m["errors"]
    if reader is None:
        reader = m["validio"].Reader(cid, source, on_error=mode, validate_until=limit)
    events = []
    raised = None
    try:
        for item in reader.rows():
            if isinstance(item, Exception):
                events.append(("err", harness.describe_error(item), item))
            else:
                events.append(("row", item))  # the object itself: read only after the iteration has finished, as list(reader.rows()) does
    except errors.CutplaceError as error:
        raised = harness.describe_error(error)
    except Exception as error:
        raised = {"type": type(error).__name__, "text": repr(error), "foreign": True}
    # rows and the locations of yielded errors are read after the iteration has finished (guards copy.copy(location) and row buffers reused between yields)
    final_events = []
    for event in events:
        if event[0] == "err":
            final_events.append(["err", event[1], harness.describe_error(event[2])])
        else:
            final_events.append(["row", list(event[1])])
    observation = {"events": final_events, "raised": raised, "accepted": reader.accepted_rows_count, "rejected": reader.rejected_rows_count}
    observation["snapshot"] = (reader.accepted_rows_count, reader.rejected_rows_count, reader.location.line if reader.location is not None else None, check_snapshot(cid))
    if close:
        try:
            reader.close()
            observation["close"] = None
        except errors.CutplaceError as error:
            observation["close"] = harness.describe_error(error)
        except Exception as error:
            observation["close"] = {"type": type(error).__name__, "text": repr(error), "foreign": True}
    return observation


def compare_yield(prediction, observation, basename, part, tag, case, names):
    """Compare a complete on_error='yield' run with the model's prediction. -> True if all agreed."""
    ok = True
    if observation["raised"] is not None:
        part.fail(tag % ("run-raised-" + observation["raised"]["type"]), case, "all rows produced", observation["raised"])
        return False
    expected_events = prediction["events"]
    observed_events = observation["events"]
    if any(event[0] == "rej" and event[1].get("grey") for event in expected_events):
        return True
    if len(expected_events) != len(observed_events):
        part.fail(tag % "event-count", case, [e[0] for e in expected_events], [e[0] for e in observed_events])
        return False
    for index, (expected, observed) in enumerate(zip(expected_events, observed_events)):
        part.validated += 1
        if expected[0] == "row":
            if observed[0] != "row":
                part.fail(tag % "rejected-but-model-accepts", case, ["row", expected[1]], observed[:2])
                ok = False
            elif observed[1] != expected[1]:
                part.fail(tag % "row-changed", case, expected[1], observed[1])
                ok = False
            continue
        info = expected[1]
        if observed[0] != "err":
            part.fail(tag % ("accepted-but-model-rejects:" + info["reason"]), case, info, observed)
            ok = False
            continue
        error = observed[1]
        problems = []
        if error["type"] != info["class"]:
            problems.append("error-class")
        if error.get("line") is None or error["line"] + 1 != info["row"]:
            problems.append("row-number")
        if info["column"] is not None and error.get("cell") != info["column"]:
            problems.append("column")
        if info["field"] is not None and ("'%s'" % info["field"]) not in error["text"] and info["field"] not in error["text"]:
            problems.append("field-name-missing")
        if basename not in error["text"]:
            problems.append("input-name-missing")
        # the location part of the text names the 1-based row (any rendering: "R3C1", "row 3", ...)
        if not re.search(r"(?<!\d)%d(?!\d)" % info["row"], error["text"].split(": ")[0]):
            problems.append("row-not-in-text")
        if info.get("see_row") is not None and error.get("see_line") != info["see_row"] - 1:
            problems.append("first-occurrence-row")
        if observed[2] != observed[1]:
            problems.append("location-changed-after-iteration")
        for problem in problems:
            part.fail(tag % ("culprit:" + problem), case, info, error)
            ok = False
    if observation["accepted"] != prediction["accepted"] or observation["rejected"] != prediction["rejected"]:
        part.fail(tag % "counters", case, [prediction["accepted"], prediction["rejected"]], [observation["accepted"], observation["rejected"]])
        ok = False
    if "close" in observation:
        expected_close = prediction["close"]
        observed_close = observation["close"]
        if (expected_close is None) != (observed_close is None):
            part.fail(tag % "end-of-data-verdict", case, expected_close, observed_close)
            ok = False
        elif observed_close is not None and observed_close["type"] != "CheckError":
            part.fail(tag % "end-of-data-error-class", case, "CheckError", observed_close)
            ok = False
    return ok


def row_shapes(config, decls, tier="quick"):
    """The row-shape alphabet for a CID: all-accepted rows, one bad cell per column, two bad cells,
    short / long / empty rows (where the format can hold them)."""
    fmt = decls[0]["fmt"]
    names = config["fields"]
    ok_rows = []
    for variant in range(3):
        ok_rows.append([CATALOGUE[n][2][variant % len(CATALOGUE[n][2])] for n in names])
    shapes = []
    seen = set()
    for index, row in enumerate(ok_rows):
        if tuple(row) not in seen:
            seen.add(tuple(row))
            shapes.append(("ok%d" % index, row))
    base = ok_rows[1]
    for column, name in enumerate(names):
        rejected = CATALOGUE[name][3]
        count = 2 if tier == "thorough" else 1
        # rejected cells holding a percent sign are always included (error messages are built from cell texts)
        # so are texts that number parsers treat specially (not-a-number, a digit that is no decimal digit)
        for variant, cell in enumerate(list(rejected[:count]) + [c for c in rejected[count:] if "%" in c or c in ("NaN", "\xb2")]):
            row = list(base)
            row[column] = cell
            shapes.append(("bad%d.%d" % (column, variant), row))
    bad_columns = [c for c, n in enumerate(names) if CATALOGUE[n][3]]
    if len(bad_columns) >= 2:
        row = list(base)
        for column in (bad_columns[0], bad_columns[-1]):
            row[column] = CATALOGUE[names[column]][3][0]
        shapes.append(("bad%d+%d" % (bad_columns[0], bad_columns[-1]), row))
    if "note" in names:
        # a free-text cell with a character outside ASCII: accepted unless the data format restricts the allowed characters
        row = list(base)
        row[names.index("note")] = "caf\xe9"
        shapes.append(("note-non-ascii", row))
    if len(names) >= 2 and all(CATALOGUE[n][0].get("empty") for n in names):
        # every field may be empty: a row of empty cells only is an accepted row like any other
        shapes.append(("all-cells-empty", [""] * len(names)))
    if len(names) >= 3:
        # a row ending in two empty cells (an office suite stores such a run as one repeated cell)
        shapes.append(("tail-empty", list(base[:-2]) + ["", ""]))
    if fmt != "fixed":
        shapes.append(("short", list(base[:-1])))
        shapes.append(("long", list(base) + ["zz"]))
        if fmt == "delimited":
            shapes.append(("long-by-an-empty-item", list(base) + [""]))  # a surplus item is one too many whatever it holds
        if fmt != "excel":
            shapes.append(("empty", []))
    return [s for s in shapes if representable(fmt, decls, [s[1]])]


def archive_still_readable(path):
    """Independent judgement of a damaged zip container: can every member still be read completely (CRC checked)?
    If so the fault did not damage anything a reader needs, and a reader that succeeds is not wrong."""
    import zipfile

    try:
        with zipfile.ZipFile(path) as archive:
            names = archive.namelist()
            if not names:
                return False
            for name in names:
                archive.read(name)
        return True
    except Exception:
        return False


# ---- binary Excel (.xls) material ---------------------------------------------------------------
XLS_FIELDS = ["branch_id", "customer_id", "first_name", "surname", "gender", "date_of_birth"]


def xls_material():
    """The repository's own small BIFF workbook (tests/data/valid_customers.xls) as bytes, or None if the tree has none.
    No independent .xls producer exists in this sandbox, so byte-level damage is applied to this file."""
    from mc import repo

    path = os.path.join(repo.REPO, "tests", "data", "valid_customers.xls")
    if not os.path.exists(path):
        return None
    with open(path, "rb") as stream:
        return stream.read()


def xls_region(content, offset):
    """Name of the part of the OLE2 container an offset lies in (header, sector / short-sector allocation table, directory, other)."""
    import struct

    if offset < 512:
        return "header"
    sector_size = 1 << struct.unpack("<H", content[30:32])[0]
    sat_count = struct.unpack("<I", content[44:48])[0]
    regions = {sid: "sat" for sid in struct.unpack("<109i", content[76:512])[: min(sat_count, 109)] if sid >= 0}
    for name, position in (("directory", 48), ("ssat", 60)):
        sid = struct.unpack("<i", content[position:position + 4])[0]
        if sid >= 0:
            regions.setdefault(sid, name)
    return regions.get((offset - 512) // sector_size, "other")


def xls_cid():
    rows = [["D", "Format", "Excel"], ["D", "Header", "1"]] + [["F", name] for name in XLS_FIELDS]
    return harness.make_cid(rows)


class Hang(BaseException):
    """Not an Exception: handlers of the code under test ('except Exception') must not swallow the harness's alarm."""


def xls_terminates(path, seconds=2):
    """Does reading the workbook come to an end at all?  (xlrd 1.2 follows a cyclic sector chain of a damaged OLE2
    container forever, growing a list on the way.)"""
    import cutplace

    def read():
        try:
            for _ in cutplace.rows(xls_cid(), path, on_error="raise"):
                pass
        except Exception:
            pass
        return True

    try:
        return with_time_limit(seconds, read)
    except Hang:
        return False


def with_time_limit(seconds, function):
    """Run function() in this (worker) process under an alarm; a call that does not return raises Hang."""
    import signal

    def on_alarm(signum, frame):
        raise Hang("no result after %d s" % seconds)

    previous = signal.signal(signal.SIGALRM, on_alarm)
    signal.alarm(seconds)
    try:
        return function()
    finally:
        signal.alarm(0)
        signal.signal(signal.SIGALRM, previous)


import contextlib


@contextlib.contextmanager
def quiet_stdout():
    """File descriptor 1 pointed at the null device for the duration (third-party code printing to the real stdout)."""
    import sys

    sys.stdout.flush()
    saved = os.dup(1)
    null = os.open(os.devnull, os.O_WRONLY)
    try:
        os.dup2(null, 1)
        yield
    finally:
        sys.stdout.flush()
        os.dup2(saved, 1)
        os.close(saved)
        os.close(null)
