"""Recording field format and check classes (C20).  They are ordinary user-defined subclasses,
resolved by cutplace through their class names ('VerifRec', 'VerifProto'), and append every call
to a shared log."""
from cutplace import checks, errors, fields

LOG = []


class VerifRecFieldFormat(fields.AbstractFieldFormat):
    def __init__(self, field_name, is_allowed_to_be_empty, length, rule, data_format):
        super().__init__(field_name, is_allowed_to_be_empty, length, rule, data_format, empty_value="<EMPTY>")

    def validated_value(self, value):
        LOG.append([self.field_name, "value", value])
        if "!" in value:
            raise errors.FieldValueError("vetoed by the value hook")
        return value.upper()


class VerifProtoCheck(checks.AbstractCheck):
    """rule: 'ok' | 'veto:<text>' (vetoes rows containing the value <text>) | 'end' (fails at the end)"""

    def reset(self):
        LOG.append([self.description, "reset"])

    def check_row(self, field_name_to_value_map, location):
        LOG.append([self.description, "row", list(field_name_to_value_map.values())])
        if self.rule.startswith("veto:") and self.rule[5:] in [v.strip() for v in field_name_to_value_map.values()]:
            raise errors.CheckError("vetoed by check %s" % self.description, location)

    def check_at_end(self, location):
        LOG.append([self.description, "end"])
        if self.rule == "end":
            raise errors.CheckError("end-of-data verdict of %s fails" % self.description, location)

    def cleanup(self):
        LOG.append([self.description, "cleanup"])


PLUGIN_SOURCE = '''
from cutplace import checks, errors, fields
import json, sys
LOG = []

class PluginRecFieldFormat(fields.AbstractFieldFormat):
    def __init__(self, field_name, is_allowed_to_be_empty, length, rule, data_format):
        super().__init__(field_name, is_allowed_to_be_empty, length, rule, data_format, empty_value="<EMPTY>")
    def validated_value(self, value):
        LOG.append([self.field_name, "value", value])
        if "!" in value:
            raise errors.FieldValueError("vetoed by the value hook")
        return value.upper()

class PluginProtoCheck(checks.AbstractCheck):
    def reset(self):
        LOG.append([self.description, "reset"])
    def check_row(self, field_name_to_value_map, location):
        LOG.append([self.description, "row", list(field_name_to_value_map.values())])
        if self.rule.startswith("veto:") and self.rule[5:] in [v.strip() for v in field_name_to_value_map.values()]:
            raise errors.CheckError("vetoed", location)
    def check_at_end(self, location):
        LOG.append([self.description, "end"])
        if self.rule == "end":
            raise errors.CheckError("end fails", location)
    def cleanup(self):
        LOG.append([self.description, "cleanup"])
'''
