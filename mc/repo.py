"""Binding to the tree under test.

`bind()` puts $VERIF_REPO (default /repo) first on sys.path, imports cutplace and
asserts that the imported package really lives there, so that every check
exercises the current working tree (Python source is the artefact; nothing is cached).
"""
import os
import sys
import warnings

REPO = os.path.realpath(os.environ.get("VERIF_REPO", "/repo"))
GUARD = "CUTPLACE_VERIF"
_bound = None


def bind():
    global _bound
    if _bound is not None:
        return _bound
    os.environ.setdefault(GUARD, "1")
    os.environ.setdefault("TZ", "UTC")
    warnings.simplefilter("ignore")
    sys.dont_write_bytecode = True
    if not sys.path or sys.path[0] != REPO:
        sys.path.insert(0, REPO)
    import logging

    logging.disable(logging.CRITICAL)
    import cutplace

    where = os.path.realpath(cutplace.__file__)
    if not where.startswith(REPO + os.sep):
        raise RuntimeError("cutplace imported from %s, not from %s" % (where, REPO))
    _bound = cutplace
    return cutplace
