"""Generic structural canonical snapshots of live objects.

The snapshot walks __dict__ of every object reachable from the roots, sorts unordered
collections and drops only attribute names on an explicit ignore list.  New hidden state
introduced by a code change therefore shows up as more states, never as wrongly merged ones.
"""
import io
import re
import types

_PATTERN_TYPE = type(re.compile(""))


def snap(value, ignore=(), _seen=None, _depth=0):
    if _seen is None:
        _seen = set()
    if value is None or isinstance(value, (bool, int, float, str, bytes)):
        return value
    if _depth > 12:
        return "<deep>"
    if isinstance(value, (list, tuple)):
        return tuple(snap(v, ignore, _seen, _depth + 1) for v in value)
    if isinstance(value, (set, frozenset)):
        return ("set",) + tuple(sorted((snap(v, ignore, _seen, _depth + 1) for v in value), key=repr))
    if isinstance(value, dict):
        items = [(snap(k, ignore, _seen, _depth + 1), snap(v, ignore, _seen, _depth + 1)) for k, v in value.items()]
        return ("dict",) + tuple(sorted(items, key=repr))
    if isinstance(value, _PATTERN_TYPE):
        return ("regex", value.pattern, value.flags)
    if isinstance(value, (io.IOBase,)) or hasattr(value, "read") or hasattr(value, "write"):
        return "<stream>"
    if isinstance(value, (types.FunctionType, types.MethodType, types.BuiltinFunctionType, type, types.ModuleType, types.GeneratorType)):
        return "<%s>" % type(value).__name__
    if id(value) in _seen:
        return "<cycle %s>" % type(value).__name__
    attributes = getattr(value, "__dict__", None)
    if attributes is None:
        return repr(value)
    _seen = _seen | {id(value)}
    items = []
    for name in sorted(attributes):
        if name in ignore:
            continue
        items.append((name, snap(attributes[name], ignore, _seen, _depth + 1)))
    return (type(value).__name__,) + tuple(items)
