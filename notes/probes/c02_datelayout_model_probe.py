import sys, warnings, itertools, datetime, re; warnings.simplefilter("ignore"); sys.path.insert(0,"/tmp/scr")
from cutplace import data, errors, fields
df = data.DataFormat("delimited"); df.validate()
PARTS={"DD":("d",r"(\d{1,2})"),"MM":("m",r"(\d{1,2})"),"YYYY":("Y",r"(\d{4})"),"YY":("y",r"(\d{2})"),"hh":("H",r"(\d{1,2})"),"mm":("M",r"(\d{1,2})"),"ss":("S",r"(\d{1,2})")}
def model(layout_parts, seps, value):
    # layout_parts: list of part names; seps: list of separators between (len-1)
    rx=""; names=[]
    for i,p in enumerate(layout_parts):
        if i>0: rx+=re.escape(seps[i-1])
        rx+=PARTS[p][1]; names.append(PARTS[p][0])
    m=re.fullmatch(rx, value)
    if not m: return None
    v=dict(zip(names,(int(g) for g in m.groups())))
    Y=v.get("Y", (2000+v["y"] if v.get("y",0)<69 else 1900+v["y"]) if "y" in v else 1900); mo=v.get("m",1); d=v.get("d",1)
    if "Y" in v and not (1<=v["Y"]<=9999): return None
    try: datetime.date(Y if "Y" in v or "y" in v else 1900, mo, d)
    except ValueError: return None
    if not (0<=v.get("H",0)<=23 and 0<=v.get("M",0)<=59 and 0<=v.get("S",0)<=61): return None
    return v
date_parts=["DD","MM","YYYY","YY"]; time_parts=["hh","mm","ss"]
layouts=[]
for n in (1,2,3):
    for ps in itertools.permutations(date_parts, n):
        if "YYYY" in ps and "YY" in ps: continue
        for sep in (".","-","/"):
            layouts.append((list(ps),[sep]*(n-1)))
for n in (1,2,3):
    for ps in itertools.permutations(time_parts, n):
        layouts.append((list(ps),[":"]*(n-1)))
layouts.append((["YYYY","MM","DD","hh","mm","ss"],["-","-"," ",":",":"]))
layouts.append((["DD","MM","YYYY","hh","mm"],[".","."," ",":"]))
def render(ps, seps, vals, pad):
    out=""
    for i,p in enumerate(ps):
        if i>0: out+=seps[i-1]
        v=vals[p]
        if p=="YYYY": out+="%04d"%v if pad else str(v)
        elif p=="YY": out+="%02d"%(v%100)
        else: out+=("%02d"%v) if pad else str(v)
    return out
grid={"DD":[0,1,9,28,29,30,31,32],"MM":[0,1,2,4,12,13],"YYYY":[1,999,1900,1999,2000,2023,2024,9999],"YY":[0,68,69,99],"hh":[0,9,23,24],"mm":[0,59,60],"ss":[0,59,60,61,62]}
n=bad=0; seen=set()
for ps,seps in layouts:
    rule="".join(p+(seps[i] if i<len(seps) else "") for i,p in enumerate(ps))
    f=fields.DateTimeFieldFormat("x",False,"",rule,df)
    for combo in itertools.product(*[grid[p] for p in ps]):
        vals=dict(zip(ps,combo))
        for pad in (True,False):
            cell=render(ps,seps,vals,pad)
            n+=1
            try: r=f.validated(cell); i=True
            except errors.FieldValueError: i=False; r=None
            m=model(ps,seps,cell)
            if i!=(m is not None):
                bad+=1; key=(rule, i)
                if key not in seen and len(seen)<25: seen.add(key); print("DATE DIFF", rule, repr(cell), "impl", i, "model", m)
            elif i:
                # compare fields
                chk={"Y":r.tm_year,"m":r.tm_mon,"d":r.tm_mday,"H":r.tm_hour,"M":r.tm_min,"S":r.tm_sec}
                for k,v in m.items():
                    if k=="y":
                        if r.tm_year%100!=v: print("YY value diff", rule, cell, r.tm_year)
                    elif chk[k]!=v and not (k=="S" and v==61): print("VALUE DIFF", rule, cell, k, v, chk[k])
print("date", n, bad)
