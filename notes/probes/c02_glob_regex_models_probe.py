import sys, warnings, itertools, datetime; warnings.simplefilter("ignore"); sys.path.insert(0,"/tmp/scr")
from cutplace import data, errors, fields
df = data.DataFormat("delimited"); df.validate()
def impl(cls, rule, value):
    f = cls("x", False, "", rule, df)
    try: f.validated(value); return True
    except errors.FieldValueError: return False
# --- glob model
def glob_match(p, s):
    p=p.lower(); s=s.lower()
    def m(i,j):
        if i==len(p): return j==len(s)
        c=p[i]
        if c=="*": return any(m(i+1,k) for k in range(j,len(s)+1))
        if c=="?": return j<len(s) and m(i+1,j+1)
        if c=="[":
            k=p.find("]", i+2 if p[i+1:i+2] in ("!",) else i+1)
            # handle ']' first char rule roughly: need at least one char in set
            k=p.find("]", i+ (3 if p[i+1:i+2]=="!" else 2))
            if k==-1: return j<len(s) and s[j]=="[" and m(i+1,j+1)
            body=p[i+1:k]; neg=body.startswith("!")
            if neg: body=body[1:]
            if j>=len(s): return False
            ch=s[j]; ok=False; t=0
            while t<len(body):
                if t+2<len(body) and body[t+1]=="-":
                    if body[t]<=ch<=body[t+2]: ok=True
                    t+=3
                else:
                    if body[t]==ch: ok=True
                    t+=1
            return (ok!=neg) and m(k+1,j+1)
        return j<len(s) and s[j]==c and m(i+1,j+1)
    return m(0,0)
toks=["a","b","?","*","[ab]","[!a]","[a-c]"]
cells=["".join(t) for L in range(1,5) for t in itertools.product("aBc", repeat=L)]
n=bad=0
for L in range(1,4):
    for ts in itertools.product(toks, repeat=L):
        pat="".join(ts)
        f = fields.PatternFieldFormat("x", False, "", pat, df)
        for c in cells:
            n+=1
            try: f.validated(c); i=True
            except errors.FieldValueError: i=False
            if i!=glob_match(pat,c):
                bad+=1
                if bad<10: print("GLOB DIFF", pat, c, i)
print("glob", n, bad)
# --- regex subset model: parse to AST then backtracking
def rx_parse(p):
    pos=0
    def alt():
        nonlocal pos
        branches=[seq()]
        while pos<len(p) and p[pos]=="|":
            pos+=1; branches.append(seq())
        return ("alt",branches)
    def seq():
        nonlocal pos
        items=[]
        while pos<len(p) and p[pos] not in "|)":
            a=atom()
            while pos<len(p) and p[pos] in "*+?":
                a=(p[pos],a); pos+=1
            items.append(a)
        return ("seq",items)
    def atom():
        nonlocal pos
        c=p[pos]
        if c=="(":
            pos+=1; a=alt(); assert p[pos]==")"; pos+=1; return a
        if c=="[":
            k=p.index("]",pos+2); body=p[pos+1:k]; pos=k+1
            neg=body.startswith("^"); body=body[1:] if neg else body
            return ("set",neg,body)
        if c==".": pos+=1; return ("any",)
        pos+=1; return ("lit",c)
    a=alt(); assert pos==len(p); return a
def rx_match_prefix(ast, s):
    s=s.lower()
    def m(node, j, k):  # k: continuation(j)->bool
        t=node[0]
        if t=="lit": return j<len(s) and s[j]==node[1].lower() and k(j+1)
        if t=="any": return j<len(s) and s[j]!="\n" and k(j+1)
        if t=="set":
            if j>=len(s): return False
            ch=s[j]; body=node[2].lower(); ok=False; i=0
            while i<len(body):
                if i+2<len(body) and body[i+1]=="-":
                    if body[i]<=ch<=body[i+2]: ok=True
                    i+=3
                else:
                    if body[i]==ch: ok=True
                    i+=1
            return (ok!=node[1]) and k(j+1)
        if t=="seq":
            def go(idx,j):
                if idx==len(node[1]): return k(j)
                return m(node[1][idx], j, lambda j2: go(idx+1,j2))
            return go(0,j)
        if t=="alt": return any(m(b,j,k) for b in node[1])
        if t=="?": return m(node[1],j,k) or k(j)
        if t=="*":
            def star(j, depth=0):
                return m(node[1], j, lambda j2: j2>j and star(j2)) or k(j)
            return star(j)
        if t=="+":
            def star(j):
                return m(node[1], j, lambda j2: j2>j and star(j2)) or k(j)
            return m(node[1], j, lambda j2: star(j2))
    return m(ast,0,lambda j: True)
rtoks=["a","b",".","[ab]","[^a]","a*","b+","c?","(a|b)","(ab)*",".*"]
n=bad=0
for L in range(1,4):
    for ts in itertools.product(rtoks, repeat=L):
        pat="".join(ts)
        f = fields.RegExFieldFormat("x", False, "", pat, df)
        ast=rx_parse(pat)
        for c in cells:
            n+=1
            try: f.validated(c); i=True
            except errors.FieldValueError: i=False
            if i!=rx_match_prefix(ast,c):
                bad+=1
                if bad<10: print("RX DIFF", pat, c, i)
print("rx", n, bad)
