import sys, warnings, io, itertools; warnings.simplefilter("ignore"); sys.path.insert(0,"/tmp/scr")
import cutplace
from cutplace import interface, errors
# C04/C05/C06 location + counters + modes prototype (delimited + fixed), IsUnique + DistinctCount
def mk(fmt, header, checks):
    rows=[["d","format",fmt],["d","header",str(header)],["d","line delimiter","lf"]]
    if fmt=="delimited": rows+= [["f","id","","","","Integer","0...9"],["f","name","","","1...2","Text",""],["f","kind","","x","","Choice",'"a","b"']]
    else: rows+= [["f","id","","","1","Integer","0...9"],["f","name","","","2","Text",""],["f","kind","","x","1","Choice",'"a","b"']]
    rows+=checks
    c=interface.Cid(); c.read("data.csv",rows); return c
GOOD=[["1","ab","a"],["2","cd","b"],["3","ef",""],["1","zz","a"]]   # last: dup id
BAD={0:"x",1:"",2:"q"}  # bad cell per column (name empty not allowed)
def shapes(fmt):
    s=[("ok",r,None) for r in GOOD]
    for j,b in BAD.items():
        if fmt=="fixed" and j==1: continue  # blank name in fixed -> would be D8 territory; skip
        r=list(GOOD[1]); r[j]=b; s.append(("bad%d"%j, r, j))
    r=list(GOOD[1]); r[0]="x"; r[2]="q"; s.append(("bad02", r, 0))
    if fmt=="delimited": s+= [("short",["5","ab"],None),("long",["5","ab","a","z"],None)]
    return s
def text(fmt, table):
    if fmt=="delimited": return "".join(",".join(r)+"\n" for r in table)
    return "".join(r[0].ljust(1)+r[1].ljust(2)+r[2].ljust(1)+"\n" for r in table)
def model(table_shapes, header, uniq, dc_op_n):
    seen={}; vals=set(); out=[]
    for rno,(kind,row,col) in enumerate(table_shapes,1):
        if rno<=header: continue
        if kind in ("short","long"): out.append(("rej",rno,None,None,"DataError")); continue
        if col is not None: out.append(("rej",rno,col,["id","name","kind"][col],"FieldValueError")); continue
        if uniq:
            if row[0] in seen: out.append(("rej",rno,0,None,"CheckError",seen[row[0]])); continue
            seen[row[0]]=rno
        vals.add(row[2].ljust(1) if False else row[2])
        out.append(("ok",row))
    return out, vals
n=bad=0
for fmt in ("delimited","fixed"):
  for header in (0,1,2):
    for uniq in (False,True):
      checks=[["c","u","IsUnique","id"]] if uniq else []
      checks.append(["c","d","DistinctCount","kind < 3"])
      cid=mk(fmt,header,checks)
      sh=shapes(fmt)
      for nrows in range(0,4):
        for tab in itertools.product(sh, repeat=nrows):
          n+=1
          exp,vals=model(tab,header,uniq,None)
          got=[]
          rd=cutplace.Reader(cid, io.StringIO(text(fmt,[t[1] for t in tab]),newline=""), on_error="yield")
          for x in rd.rows():
              if isinstance(x,Exception):
                  g=["rej", x.location.line+1, x.location.cell, type(x).__name__, str(x)]
                  got.append(g)
              else: got.append(("ok",x))
          try: rd.close(); closed_ok=True
          except errors.CheckError: closed_ok=False
          ok = len(exp)==len(got)
          if ok:
            for e,g in zip(exp,got):
              if e[0]=="ok":
                  want = e[1] if fmt=="delimited" else [e[1][0].ljust(1),e[1][1].ljust(2),e[1][2].ljust(1)]
                  ok = ok and g[0]=="ok" and g[1]==want
              else:
                  ok = ok and g[0]=="rej" and g[1]==e[1] and g[3]==e[4] and "data.csv" not in "" 
                  if e[2] is not None: ok = ok and g[2]==e[2]
                  if e[3]: ok = ok and ("'%s'"%e[3]) in g[4]
                  if e[4]=="CheckError": ok = ok and ("(R%dC1): location of first" % e[5]) in g[4]
            ok = ok and (closed_ok == (len(vals) < 3))
            acc=sum(1 for e in exp if e[0]=="ok"); ok = ok and rd.accepted_rows_count==acc and rd.rejected_rows_count==len(exp)-acc
          if not ok:
              bad+=1
              if bad<6: print("DIFF",fmt,header,uniq,[t[0] for t in tab],"\n exp",exp,"\n got",got)
print("runs",n,"bad",bad)
