import sys, io, warnings, collections, gc
warnings.simplefilter("ignore")
sys.path.insert(0, "/repo")
import cutplace
from cutplace import interface, errors
CID = "d,format,delimited\nd,line delimiter,lf\nf,id,,,,Integer,0:99\nf,name\nc,uniq,IsUnique,id\nc,dc,DistinctCount,name < 3\n"
CLEAN="1,a\n2,b\n"; DUP="1,a\n1,b\n3,c\n"; MANY="1,a\n2,b\n3,c\n4,d\n"
def obs_err(e): return (type(e).__name__, str(e))
def op_read(cid, text, mode):
    out=[]
    try:
        for r in cutplace.rows(cid, io.StringIO(text, newline=""), on_error=mode):
            out.append(tuple(r) if not isinstance(r, Exception) else obs_err(r))
    except errors.CutplaceError as e: out.append(("RAISED",)+obs_err(e))
    return tuple(out)
def op_abandon(cid, text, k, keep):
    g = cutplace.rows(cid, io.StringIO(text, newline=""), on_error="yield"); out=[]
    try:
        for _ in range(k): out.append(tuple(next(g)))
    except Exception as e: out.append(obs_err(e))
    if keep is not None: keep.append(g)
    else:
        try: g.close()
        except errors.CutplaceError as e: out.append(("CLOSE",)+obs_err(e))
    return tuple(out)
def op_noclose(cid, text):
    rd = cutplace.Reader(cid, io.StringIO(text, newline=""), on_error="yield")
    return tuple(tuple(r) if not isinstance(r, Exception) else obs_err(r) for r in rd.rows())
def op_write(cid, rows, close):
    out=io.StringIO(); res=[]
    w=cutplace.Writer(cid,out)
    for r in rows:
        try: w.write_row(list(r)); res.append("ok")
        except errors.CutplaceError as e: res.append(obs_err(e))
    if close:
        try: w.close()
        except errors.CutplaceError as e: res.append(("CLOSE",)+obs_err(e))
    return (tuple(res), out.getvalue() if not out.closed else None)
OPS = {
 "read_clean": lambda c,k: op_read(c, CLEAN, "raise"),
 "read_dup_raise": lambda c,k: op_read(c, DUP, "raise"),
 "read_dup_yield": lambda c,k: op_read(c, DUP, "yield"),
 "read_many": lambda c,k: op_read(c, MANY, "continue"),
 "abandon1_keep": lambda c,k: op_abandon(c, CLEAN, 1, k),
 "abandon1_close": lambda c,k: op_abandon(c, CLEAN, 1, None),
 "noclose": lambda c,k: op_noclose(c, CLEAN),
 "write": lambda c,k: op_write(c, [("1","a"),("2","b")], False),
 "write_close": lambda c,k: op_write(c, [("1","a"),("2","b")], True),
 "write_dup": lambda c,k: op_write(c, [("1","a"),("1","b")], True),
}
def fresh(): return interface.create_cid_from_string(CID)
def canon(cid):
    u=cid.check_map["uniq"]; d=cid.check_map["dc"]
    return (tuple(sorted((k, v.line) for k,v in u._row_key_to_location_map.items())), tuple(sorted(d._distinct_value_to_count_map.items())))
FRESH = {name: f(fresh(), []) for name,f in OPS.items()}
seen={}; frontier=collections.deque([()]); viol={}; trans=0
while frontier:
    hist=frontier.popleft()
    cid=fresh(); keep=[]
    for name in hist: OPS[name](cid, keep)
    key=canon(cid)
    if key in seen: continue
    seen[key]=hist
    for name,f in OPS.items():
        cid=fresh(); keep=[]
        for h in hist: OPS[h](cid, keep)
        got=f(cid, keep); trans+=1
        if got!=FRESH[name]:
            viol.setdefault(name, (hist, got, FRESH[name]))
        frontier.append(hist+(name,))
print("states", len(seen), "transitions", trans)
for k,v in seen.items(): print("  state", k, "via", v)
for name,(hist,got,exp) in viol.items(): print("VIOL", name, "after", hist, "\n   got", got, "\n   exp", exp)
