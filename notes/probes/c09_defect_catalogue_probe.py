import sys, warnings, re; warnings.simplefilter("ignore"); sys.path.insert(0,"/tmp/scr")
from cutplace import data, errors, interface
BASE = [
 ["","Interface: test"],
 ["d","format","delimited"],
 ["d","header","1"],
 ["","comment"],
 ["f","id","12","","1...5","Integer","0...99999"],
 ["f","name","Bob","x","...10","Text",""],
 ["f","kind","a","","","Choice",'"a","b"'],
 ["f","born","2000-01-31","X","10","DateTime","YYYY-MM-DD"],
 ["c","id unique","IsUnique","id"],
 ["c","kinds","DistinctCount","kind < 3"],
]
def load(rows):
    cid=interface.Cid()
    try:
        cid.read("x", [list(r) for r in rows]); return ("OK", None)
    except errors.InterfaceError as e:
        m=re.search(r"\(R(\d+)C(\d+)\)", str(e)); return ("IE", int(m.group(1)) if m else None, str(e)[:90])
    except Exception as e: return ("LEAK", type(e).__name__, str(e)[:60])
print("base", load(BASE))
def with_row(i, row): r=[list(x) for x in BASE]; r[i]=row; return r
def ins(i, row): r=[list(x) for x in BASE]; r.insert(i,row); return r
def dele(i): r=[list(x) for x in BASE]; del r[i]; return r
cases = {
 "first D not format": (with_row(1,["d","header","1"]), 2),
 "unknown format": (with_row(1,["d","format","xml"]), 2),
 "format twice": (ins(2,["d","format","delimited"]), 3),
 "empty prop name": (with_row(2,["d","","1"]), 3),
 "unknown prop": (with_row(2,["d","colour","1"]), 3),
 "inapplicable prop": (with_row(2,["d","sheet","1"]), 3),
 "no fields": (BASE[:4], 4),
 "field before format": (ins(1,["f","early"]), 2),
 "dup field": (ins(6,["f","id"]), 7),
 "empty field name": (with_row(5,["f",""]), 6),
 "digit field name": (with_row(5,["f","1abc"]), 6),
 "blank in name": (with_row(5,["f","a b"]), 6),
 "non-ascii name": (with_row(5,["f","näme"]), 6),
 "keyword name": (with_row(5,["f","for"]), 6),
 "underscore first": (with_row(5,["f","_a"]), 6),
 "bad empty mark": (with_row(5,["f","name","","Y"]), 6),
 "unknown type": (with_row(5,["f","name","","","","Nope"]), 6),
 "malformed type": (with_row(5,["f","name","","","","Te-xt"]), 6),
 "length letters": (with_row(5,["f","name","","","abc"]), 6),
 "length two ellipses": (with_row(5,["f","name","","","1...2...3"]), 6),
 "length lower>upper": (with_row(5,["f","name","","","5...1"]), 6),
 "length negative": (with_row(5,["f","name","","","-1"]), 6),
 "int rule letters": (with_row(4,["f","id","","","","Integer","abc"]), 5),
 "dec rule letters": (with_row(4,["f","id","","","","Decimal","abc"]), 5),
 "choice trailing comma": (with_row(6,["f","kind","","","","Choice",'"a",']), 7),
 "choice double comma": (with_row(6,["f","kind","","","","Choice",'"a",,"b"']), 7),
 "choice missing comma": (with_row(6,["f","kind","","","","Choice",'"a" "b"']), 7),
 "choice none not empty": (with_row(6,["f","kind","","","","Choice",'']), 7),
 "constant two tokens": (with_row(6,["f","kind","","","","Constant",'"a" "b"']), 7),
 "constant empty no X": (with_row(6,["f","kind","","","","Constant",'']), 7),
 "constant X with rule": (with_row(6,["f","kind","","X","","Constant",'"a"']), 7),
 "regex unbalanced": (with_row(6,["f","kind","","","","RegEx",'(a']), 7),
 "length vs int rule": (with_row(4,["f","id","","","1","Integer","10...99"]), 5),
 "bad example": (with_row(4,["f","id","abc","","1...5","Integer","0...99999"]), 5),
 "check before fields": ([BASE[1],["c","x","IsUnique","id"],BASE[4]], 2),
 "empty check desc": (with_row(8,["c","","IsUnique","id"]), 9),
 "dup check desc": (with_row(9,["c","id unique","IsUnique","id"]), 10),
 "unknown check type": (with_row(8,["c","x","Nope","id"]), 9),
 "missing check type": (with_row(8,["c","x"]), 9),
 "isunique unknown field": (with_row(8,["c","x","IsUnique","nope"]), 9),
 "isunique dup field": (with_row(8,["c","x","IsUnique","id, id"]), 9),
 "isunique missing comma": (with_row(8,["c","x","IsUnique","id name"]), 9),
 "isunique leading comma": (with_row(8,["c","x","IsUnique",", id"]), 9),
 "isunique double comma": (with_row(8,["c","x","IsUnique","id,, name"]), 9),
 "isunique empty rule": (with_row(8,["c","x","IsUnique",""]), 9),
 "dc unknown field": (with_row(9,["c","k","DistinctCount","nope < 3"]), 10),
 "dc non-boolean": (with_row(9,["c","k","DistinctCount","kind + 3"]), 10),
 "dc broken": (with_row(9,["c","k","DistinctCount","kind < "]), 10),
 "dc not starting with field": (with_row(9,["c","k","DistinctCount","3 > kind"]), 10),
 "unknown marker": (with_row(3,["x","comment"]), 4),
 "no format at all": ([BASE[0]], 1),
 "isunique trailing comma": (with_row(8,["c","x","IsUnique","id,"]), 9),
 "datetime empty rule": (with_row(7,["f","born","","X","10","DateTime",""]), 8),
}
fixed = [["d","format","fixed"],["f","a","","","3"],["f","b","","","2","Integer"]]
def fw(i,row): r=[list(x) for x in fixed]; r[i]=row; return r
cases.update({
 "fixed no length": (fw(1,["f","a"]),2), "fixed range length": (fw(1,["f","a","","","1...3"]),2), "fixed zero length": (fw(1,["f","a","","","0"]),2), "fixed open length": (fw(1,["f","a","","","3..."]),2), "fixed two lengths": (fw(1,["f","a","","","2, 4"]),2),
})
for k,(rows,exp) in cases.items():
    r=load(rows)
    flag = "" if (r[0]=="IE" and r[1]==exp) else "   <<<<<<"
    print("%-28s exp R%-2d got %s%s" % (k, exp, r, flag))
# rewrites
def same(rows):
    a=interface.Cid(); a.read("x",[list(r) for r in BASE]); b=interface.Cid()
    try: b.read("x",[list(r) for r in rows])
    except Exception as e: return "FAIL %s %s" % (type(e).__name__, str(e)[:70])
    sig=lambda c:(str(c.data_format), c.field_names, [(type(f).__name__, f.is_allowed_to_be_empty, str(f.length), f.rule) for f in c.field_formats], c.check_names, [(type(c.check_map[n]).__name__, c.check_map[n].rule) for n in c.check_names])
    return "same" if sig(a)==sig(b) else "DIFF"
rw = {
 "upper markers": [[r[0].upper()]+r[1:] for r in BASE],
 "padded markers": [[" "+r[0]+" "]+r[1:] if r[0] else r for r in BASE],
 "trailing cells": [r+["","","","","","","note","more"] for r in BASE],
 "format case": with_row(1,["d","FORMAT","DELIMITED"]),
 "prop case": with_row(2,["D","HEADER","1"]),
 "padded field name": with_row(5,["f"," name ","Bob","x","...10","Text",""]),
 "padded type": with_row(5,["f","name","Bob","x","...10"," Text ",""]),
 "padded empty mark": with_row(5,["f","name","Bob"," X ","...10","Text",""]),
 "padded length": with_row(5,["f","name","Bob","x"," ...10 ","Text",""]),
 "padded check type": with_row(8,["c","id unique"," IsUnique ","id"]),
 "padded check rule": with_row(8,["c","id unique","IsUnique"," id "]),
 "check type case": with_row(8,["c","id unique","isunique","id"]),
 "field type case": with_row(5,["f","name","Bob","x","...10","text",""]),
 "qualified type": with_row(5,["f","name","Bob","x","...10","fields.Text",""]),
 "D after F": BASE[:5]+[["d","encoding","cp1252"]]+BASE[5:],
 "empty rows": [[]]+BASE+[[]],
 "padded prop name": with_row(2,["d"," header ","1"]),
 "padded prop value": with_row(2,["d","header"," 1 "]),
 "padded format value": with_row(1,["d","format"," delimited "]),
}
for k,rows in rw.items(): print("rewrite %-22s %s" % (k, same(rows)))
