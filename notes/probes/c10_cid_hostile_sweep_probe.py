import sys, warnings, io, collections, logging; warnings.simplefilter("ignore"); sys.path.insert(0,"/tmp/scr")
logging.disable(logging.CRITICAL)
import cutplace
from cutplace import data, errors, interface
BASES = {
 "delimited": [["d","format","delimited"],["d","header","1"],["d","encoding","utf-8"],["d","allowed characters","32..."],["d","item delimiter",";"],["d","quote character",'"'],["d","escape character",'"'],["d","quoting","minimal"],["d","line delimiter","lf"],["d","decimal separator","."],["d","thousands separator",","],["d","skip initial space","false"],
   ["f","id","12","","1...5","Integer","0...99999"],["f","name","Bob","x","...10","Text",""],["f","kind","a","","","Choice",'"a","b"'],["f","born","2000-01-31","X","10","DateTime","YYYY-MM-DD"],["f","amount","1.5","","","Decimal","0...100.00"],["f","code","ab","","","Pattern","a?"],["f","rx","ab","","","RegEx","a.*"],["f","const","k","","","Constant",'"k"'],
   ["c","id unique","IsUnique","id"],["c","kinds","DistinctCount","kind < 3"]],
 "fixed": [["d","format","fixed"],["d","line delimiter","any"],["f","id","12","","3","Integer",""],["f","name","Bob","x","5","Text",""],["f","amount","1.5","","4","Decimal",""]],
 "excel": [["d","format","excel"],["d","sheet","1"],["f","id","12","","","Integer",""],["f","amount","1.5","","","Decimal",""]],
 "ods": [["d","format","ods"],["d","sheet","1"],["f","id","12","","","Integer",""]],
}
HOSTILE = ['"', "'", '"abc', "(", ")", "[", "\\", "...", "…", "1...", "-", "--1", "0x", "1_", "1e999", "9"*40, "-0", "0", "-1", "2**31", "NaN", "sNaN", "Infinity", "1.5", "ä", "€", "\x00", "\t", "a\rb", "a\nb", " ", "", "x"*5000, "%", "%Q", "{", "*", "?", "[a-", "(?P<", "lambda", "count", "__class__", "is_valid", "format", "none", "0x110000", 'u"a"', "class", "1...2...3", "5...1", "'ab'", "tab", "a,b", '"a",', "DD.DD", "(a", "a{2", "\\", "*a", "+", "count == count", "id id", "1/0", "id < 1/0", "id and", "9"*400]
found = collections.OrderedDict()
n=0
for fmt, base in BASES.items():
    for ri,row in enumerate(base):
        for ci in range(1, max(len(row),7 if row[0]=="f" else 4)):
            for h in HOSTILE:
                rows=[list(r) for r in base]
                r=rows[ri]+[""]*(8-len(rows[ri])); 
                if ri==0 and ci==1: continue
                r[ci]=h; rows[ri]=r; n+=1
                cid=interface.Cid()
                try: cid.read("x", rows)
                except errors.InterfaceError: pass
                except errors.DataError as e:
                    found.setdefault(("DataError-on-CID", fmt, base[ri][0], ci, type(e).__name__), []).append(h)
                except BaseException as e:
                    found.setdefault((fmt, base[ri][0], ci if base[ri][0]!="d" else base[ri][1], base[ri][5] if base[ri][0]=="f" and len(base[ri])>5 else "", type(e).__name__), []).append(h[:12])
print("cases", n)
for k,v in found.items(): print(k, v[:14])
