import sys, warnings, io, collections, logging, os, tempfile, shutil; warnings.simplefilter("ignore"); sys.path.insert(0,"/tmp/scr")
logging.disable(logging.CRITICAL)
import cutplace
from cutplace import data, errors, interface, applications
exec(open("q6.py").read().split("found = ")[0].split("BASES = ")[0])  # imports only
HOSTILE = ['"', "'", '"abc', "(", ")", "[", "\\", "...", "…", "1...", "-", "--1", "0x", "1_", "1e999", "9"*40, "-0", "0", "-1", "2**31", "NaN", "sNaN", "Infinity", "-Infinity", "1.5", "ä", "€", "\x00", "\t", "a\rb", "a\nb", " ", "", "x"*5000, "x"*200000, "%", "{", "*", "?", "１２", "1_0", "+5", " 1", "1e5", "1E-400", "0"*400+"1", "9"*5000, "1,2,3", "1..2", ".", ",", "2000-02-30", "0000-00-00", "9999-12-31", "2000-1-1", "\ud800"]
rows=[["d","format","delimited"],["d","encoding","utf-8"],["d","thousands separator",","],["d","line delimiter","lf"],
   ["f","id","","x","","Integer",""],["f","name","","x","","Text",""],["f","kind","","x","","Choice",'"a","b"'],["f","born","","x","","DateTime","YYYY-MM-DD"],["f","amount","","x","","Decimal",""],["f","code","","x","","Pattern","a?"],["f","rx","","x","","RegEx","a.*"],["f","const","","x","","Choice",'"k"'],["f","amt2","","x","","Decimal","0...100.00"],
   ["c","id unique","IsUnique","id, name"],["c","kinds","DistinctCount","kind < 3"]]
cid=interface.Cid(); cid.read("x", rows)
names=cid.field_names
import csv
found=collections.OrderedDict(); n=0
d=tempfile.mkdtemp(dir="/tmp/scr")
for ci,name in enumerate(names):
    for h in HOSTILE:
        row=[""]*len(names); row[ci]=h
        buf=io.StringIO(newline=""); w=csv.writer(buf, lineterminator="\n")
        try: w.writerow(row)
        except Exception as e: continue
        text=buf.getvalue(); n+=1
        for mode in ("raise","yield","continue"):
            try:
                list(cutplace.rows(cid, io.StringIO(text, newline=""), on_error=mode))
            except errors.DataError: pass
            except BaseException as e:
                found.setdefault((name, mode, type(e).__name__), []).append(h[:10])
        # writer
        try:
            w2=cutplace.Writer(cid, io.StringIO()); 
            try: w2.write_row(row)
            except errors.CutplaceError: pass
            try: w2.close()
            except errors.CutplaceError: pass
        except BaseException as e:
            found.setdefault((name, "writer", type(e).__name__), []).append(h[:10])
        # CLI
        p=os.path.join(d,"x.csv")
        try:
            open(p,"w",encoding="utf-8",newline="").write(text)
        except Exception: continue
        cp=os.path.join(d,"cid.csv")
        if not os.path.exists(cp):
            with open(cp,"w",encoding="utf-8",newline="") as f: csv.writer(f).writerows(rows)
        rc=applications.main(["cutplace", cp, p])
        if rc not in (0,1): found.setdefault((name,"cli",rc),[]).append(h[:10])
shutil.rmtree(d)
print("cases", n)
for k,v in found.items(): print(k, v[:14])
