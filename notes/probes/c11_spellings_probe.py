import sys, warnings; warnings.simplefilter("ignore"); sys.path.insert(0,"/tmp/scr")
from cutplace import data, errors, interface
def delim(sp):
    cid=interface.Cid()
    try:
        cid.read("x", [["d","format","delimited"],["d","quote character","~"],["d","item delimiter",sp],["f","a"]])
        return repr(cid.data_format.item_delimiter)
    except errors.InterfaceError as e: return "IE "+str(e)[:70]
    except Exception as e: return "LEAK %s %s" % (type(e).__name__, str(e)[:50])
pool=[chr(c) for c in range(32,127)]+["\t","\r","\n","ä","€"]
bad={}
for ch in pool:
    code=ord(ch)
    sp = {"dec":str(code), "hex":hex(code), "HEX":"0x%X"%code, "dq":'"%s"'%(ch if ch not in '"\\\r\n\t' else {'"':'\\"','\\':'\\\\','\r':'\\r','\n':'\\n','\t':'\\t'}[ch]),
          "sq":"'%s'"%(ch if ch not in "'\\\r\n\t" else {"'":"\\'",'\\':'\\\\','\r':'\\r','\n':'\\n','\t':'\\t'}[ch]), "xesc":'"\\x%02x"'%code if code<256 else '"\\u%04x"'%code, "uesc":'"\\u%04x"'%code}
    if not ch.isdigit() and not ch.isspace(): sp["lit"]=ch
    for k,v in sp.items():
        r=delim(v)
        exp=repr(ch)
        if ch=="~": continue
        if r!=exp: bad.setdefault((k, r[:40]), []).append(ch)
for k,v in bad.items(): print(k, v[:12])
print("symbolic", [delim(x) for x in ("tab","Tab","TAB","cr","lf","ff","vt","Lf")])
print("malformed", [(x, delim(x)[:60]) for x in ("", " ", "tab tab", "17.23", '"\\', '"abc"', "0", "-1", "0x110000", "1 2", ",,", '""', "x y", "nul", "0x", "'")])
# other props
def prop(fmt, name, value):
    cid=interface.Cid()
    try:
        cid.read("x", [["d","format",fmt],["d",name,value],["f","a","","","1"]]); return "OK"
    except errors.InterfaceError as e: return "IE"
    except Exception as e: return "LEAK %s" % type(e).__name__
for name in ("quote character","escape character","decimal separator","thousands separator"):
    acc=[c for c in pool if prop("delimited",name,c)=="OK"]; leaks=[c for c in pool if prop("delimited",name,c).startswith("LEAK")]
    print(name, "accepted:", "".join(acc), "leaks:", leaks)
print("thousands empty", prop("delimited","thousands separator",""))
for fmt in ("delimited","fixed","excel","ods"):
    print(fmt, {n: prop(fmt,n,v) for n,v in (("encoding","utf-8"),("header","1"),("allowed characters","32:"),("item delimiter",";"),("quote character","'"),("escape character","\\"),("quoting","all"),("skip initial space","true"),("line delimiter","lf"),("line delimiter","none"),("decimal separator",","),("thousands separator",","),("sheet","2"),("Header","1"),("LINE DELIMITER","crlf"),("line_delimiter","cr"),("Line  delimiter","cr"))})
print([ (v, prop("delimited","line delimiter",v)) for v in ("LF","Lf","crlf","CRLF","any","Any","ANY","cr","none","None","x","")])
print([ (v, prop("delimited","encoding",v)) for v in ("utf-8","UTF-8","latin1","cp1252","ascii","iso-8859-15","utf_16","nope","","utf-99")])
print([ (v, prop("delimited","header",v)) for v in ("-1","0","1","17","1.5","x",""," 2 ","0x10","1_0")])
print([ (v, prop("excel","sheet",v)) for v in ("-1","0","1","2","1.5","x","")])
print([ (v, prop("delimited","quoting",v)) for v in ("all","ALL","Minimal","none","")])
print([ (v, prop("delimited","skip initial space",v)) for v in ("true","True","FALSE","yes","")])
