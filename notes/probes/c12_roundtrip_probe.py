import sys, io, warnings, itertools
warnings.simplefilter("ignore")
sys.path.insert(0, "/repo")
from cutplace import rowio, errors, interface, data
import cutplace
item_delims = {",":'","', ";":";", "|":"|", ":":'":"', "\t":"tab", " ":"32", "#":"#", "'":'"\'"', '"':"34", "\\":"92", "a":"a", "0":"48", "~":"~", "^":"^", "\n":"lf", "\r":"cr"}
quotes = sorted("!\"#$%&'*+-/:;=?\\^_`~")
stats = {}; shown=set()
for idel, spelled in item_delims.items():
  for q in quotes:
    for esc in ['"',"\\"]:
      for quoting in ["all","minimal"]:
        for ld in ["any","lf","cr","crlf"]:
          rows=[["d","format","delimited"],["d","item delimiter",spelled],["d","quote character",q],["d","escape character",esc],["d","quoting",quoting],["d","line delimiter",ld],["f","a"],["f","b"]]
          cid = interface.Cid()
          try: cid.read("x", rows)
          except errors.InterfaceError as e:
              stats["refused"]=stats.get("refused",0)+1; continue
          except Exception as e:
              k=("LEAK-load",type(e).__name__, idel); 
              if k not in shown: shown.add(k); print(k, e)
              continue
          df = cid.data_format
          A = ["", "x", " x ", idel, q, esc, q+q, esc+q, idel+q, "\n", "\r", "x\ny"]
          for c1 in A:
            for c2 in ["y", "", q]:
              table=[[c1,c2],[c2,c1]]
              out=io.StringIO(newline="")
              try:
                w=rowio.DelimitedRowWriter(out, df); w.write_rows(table)
                back=list(rowio.delimited_rows(io.StringIO(out.getvalue(), newline=""), df))
              except Exception as e:
                back="EXC %s" % type(e).__name__
              ok = back==table
              stats[ok]=stats.get(ok,0)+1
              if not ok:
                k=(idel, esc==q, esc==idel, q, back if isinstance(back,str) else "diff")
                k2=(idel, esc==idel, back if isinstance(back,str) else "diff")
                if k2 not in shown and len(shown)<40:
                  shown.add(k2); print("BAD", repr(idel), "q",repr(q),"esc",repr(esc),quoting,ld,table,"->",repr(out.getvalue())[:50], back)
print(stats)
