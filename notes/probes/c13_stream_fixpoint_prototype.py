import sys, io, warnings, time, collections
warnings.simplefilter("ignore")
sys.path.insert(0, "/repo")
from cutplace import rowio, errors

class NeedMore(Exception):
    pass

class Stream:
    """Text stream over a fixed prefix; raises NeedMore (with a snapshot) when it would have to block."""
    def __init__(self, text, eof):
        self.text = text; self.pos = 0; self.eof = eof; self.snap = None
    def read(self, n=-1):
        avail = len(self.text) - self.pos
        if avail >= n:
            r = self.text[self.pos:self.pos+n]; self.pos += n; return r
        if self.eof:
            r = self.text[self.pos:]; self.pos = len(self.text); return r
        # snapshot: walk frames up to fixed_rows
        f = sys._getframe(1); chain = []
        while f is not None and f.f_code.co_name != "fixed_rows":
            chain.append((f.f_code.co_name, f.f_lineno)); f = f.f_back
        loc = f.f_locals
        self.snap = (tuple(chain), f.f_lineno, tuple(loc["row"]), loc["field_index"], loc["has_data"],
                     loc["unread_character_after_line_delimiter"][0], self.text[self.pos:], n)
        raise NeedMore()

def run(text, widths, delim, eof):
    s = Stream(text, eof)
    rows = []
    try:
        for r in rowio.fixed_rows(s, "utf-8", [("f%d" % i, w) for i, w in enumerate(widths)], delim):
            rows.append(tuple(r))
        return ("ok", tuple(rows), None)
    except NeedMore:
        return ("blocked", tuple(rows), s.snap)
    except errors.DataFormatError:
        return ("err", tuple(rows), None)

# spec automaton: state = (phase, partial) ; phases: 'rec' (pos within record via partial len), 'delim', 'cr'
def spec_step(state, c, widths, delim):
    total = sum(widths)
    phase, partial, out = state
    def split(rec):
        r=[];p=0
        for w in widths: r.append(rec[p:p+w]); p+=w
        return tuple(r)
    if phase == "dead": return state
    if phase == "cr":
        if c == "\n": return ("rec", "", out)
        phase = "rec"  # CR alone was the delimiter; c starts next record
    if phase == "delim":
        if delim is None: phase = "rec"
        elif delim == "any":
            if c == "\r": return ("cr", "", out)
            if c == "\n": return ("rec", "", out)
            return ("dead", "", out)
        elif delim == "\r\n":
            if c == "\r": return ("crlf2", "", out)
            return ("dead","",out)
        else:
            return ("rec","",out) if c == delim else ("dead","",out)
    if phase == "crlf2":
        return ("rec","",out) if c == "\n" else ("dead","",out)
    # phase rec
    partial += c
    if len(partial) == total:
        return ("delim", "", out + (split(partial),))
    return ("rec", partial, out)
def spec_accepts(state):
    phase, partial, out = state
    return phase in ("delim","cr") or (phase == "rec" and partial == "")

def explore(widths, delim, alphabet="ab\r\n", max_states=200000):
    init_spec = ("rec","",())
    seen = set(); frontier = collections.deque([("", init_spec)])
    states = trans = 0; maxlen = 0
    while frontier:
        prefix, sp = frontier.popleft()
        maxlen = max(maxlen, len(prefix))
        # judge complete input
        kind, rows, _ = run(prefix, widths, delim, True); trans += 1
        exp_ok = spec_accepts(sp)
        if (kind == "ok") != exp_ok or (kind == "ok" and rows != sp[2]):
            return ("VIOLATION", prefix, kind, rows, sp)
        kind, rows, snap = run(prefix, widths, delim, False); trans += 1
        if kind == "err":
            # impl already rejected: spec must be dead for all continuations
            if sp[0] != "dead": return ("VIOLATION-early-reject", prefix, sp)
            continue
        if kind == "ok":
            return ("impl finished without EOF?!", prefix)
        # lag between impl rows and spec rows
        if sp[0] == "dead":
            key = ("dead", snap)   # spec dead, impl not yet: keep exploring but key on impl state only
        else:
            n = len(rows)
            if sp[2][:n] != rows: return ("VIOLATION-rows", prefix, rows, sp)
            key = (snap, sp[0], sp[1], sp[2][n:])
        if key in seen: continue
        seen.add(key); states += 1
        if states > max_states: return ("CAP", states)
        for c in alphabet:
            frontier.append((prefix + c, spec_step(sp, c, widths, delim)))
    return ("fixpoint", states, trans, maxlen)

t=time.time()
for widths in ([1],[2],[1,1],[2,1],[1,2,1],[3,3]):
    for delim in ("any","\n","\r","\r\n",None):
        print(widths, repr(delim), explore(widths, delim))
print("time", time.time()-t)
