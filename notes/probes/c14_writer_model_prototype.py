import sys, warnings, io, itertools; warnings.simplefilter("ignore"); sys.path.insert(0,"/tmp/scr")
import cutplace
from cutplace import interface, errors
def mk(fmt, header, ld):
    rows=[["d","format",fmt],["d","header",str(header)],["d","line delimiter",ld]]
    if fmt=="delimited": rows+= [["f","id","","","","Integer","0...9"],["f","name","","","1...3","Text",""]]
    else: rows+= [["f","id","","","2","Integer","0...9"],["f","name","","","3","Text",""]]
    rows+=[["c","u","IsUnique","id"],["c","d","DistinctCount","name < 3"]]
    c=interface.Cid(); c.read("x",rows); return c
SH=[("ok1",["1","ab"]),("ok2",["2","cd"]),("ok3",["3","e"]),("ok4",["4","fgh"]),("dup1",["1","zz"]),("badid",["x","ab"]),("toolong",["5","abcd"]),("short",["5"]),("long",["5","ab","c"])]
LD={"lf":["\n"],"cr":["\r"],"crlf":["\r\n"],"any":["\n","\r","\r\n"]}
n=bad=0; shown=0
for fmt in ("delimited","fixed"):
  for header in (0,1):
    for ld in ("lf","crlf","any","cr"):
      for nrows in range(0,4):
        for seq in itertools.product(SH, repeat=nrows):
          n+=1
          cid=mk(fmt,header,ld); out=io.StringIO(newline=""); w=cutplace.Writer(cid,out)
          seen=set(); names=set(); expected_rows=[]; ok=True; why=""
          hdr_written=0
          if header: 
              w.write_row(["hh","hhh"] if fmt=="fixed" else ["h","h"]); expected_rows.append(["hh","hhh"] if fmt=="fixed" else ["h","h"])
          for kind,row in seq:
              before=out.getvalue()
              exp_ok = kind.startswith("ok") and row[0] not in seen or (kind=="dup1" and "1" not in seen)
              try:
                  w.write_row(list(row)); got_ok=True
              except errors.CutplaceError: got_ok=False
              except Exception as e: got_ok="LEAK "+type(e).__name__
              delta=out.getvalue()[len(before):]
              if got_ok!=exp_ok: ok=False; why="verdict %s %s got %s"%(kind,exp_ok,got_ok); break
              if exp_ok:
                  seen.add(row[0]); names.add(row[1])
                  if fmt=="fixed":
                      body=row[0].ljust(2)+row[1].ljust(3)
                      if not any(delta==body+e for e in LD[ld]): ok=False; why="delta %r"%delta; break
                      expected_rows.append([row[0].ljust(2),row[1].ljust(3)])
                  else:
                      if not any(delta==",".join(row)+e for e in LD["any"]): ok=False; why="delta %r (declared %s)"%(delta,ld); break
                      expected_rows.append(row)
              elif delta!="": ok=False; why="emitted on reject %r"%delta; break
          if ok:
              final=out.getvalue()
              try: w.close(); closed=True
              except errors.CheckError: closed=False
              if closed!=(len(names)<3): ok=False; why="close verdict"
              cid2=mk(fmt,header,ld)
              try:
                  back=list(cutplace.rows(cid2, io.StringIO(final,newline="")))
                  if back!=expected_rows[header:]: ok=False; why="readback %r vs %r"%(back,expected_rows[header:])
              except errors.CheckError:
                  if len(names)<3: ok=False; why="readback checkerror"
              except Exception as e: ok=False; why="readback %s %s"%(type(e).__name__,e)
          if not ok:
              bad+=1
              if shown<10: shown+=1; print("DIFF",fmt,header,ld,[k for k,_ in seq],why)
print("runs",n,"bad",bad)
