"""Prototype ODF spreadsheet encoder with feature switches + independent decoder."""
import zipfile, io, re
from xml.sax.saxutils import escape
NS = ('xmlns:office="urn:oasis:names:tc:opendocument:xmlns:office:1.0" '
      'xmlns:table="urn:oasis:names:tc:opendocument:xmlns:table:1.0" '
      'xmlns:text="urn:oasis:names:tc:opendocument:xmlns:text:1.0"')
def enc_text(t, f):
    """ODF text content for one paragraph (no newlines in t unless line-break feature)."""
    out=[]; i=0
    def lit(s): return escape(s)
    while i<len(t):
        c=t[i]
        if c==" ":
            j=i
            while j<len(t) and t[j]==" ": j+=1
            n=j-i
            first_literal = (i>0) and not f.get("all_spaces_as_s")   # leading blank must be text:s
            if first_literal: out.append(" "); n-=1
            if n>0:
                if n==1 and not f.get("explicit_c"): out.append("<text:s/>")
                else: out.append('<text:s text:c="%d"/>'%n)
            i=j; continue
        if c=="\t": out.append("<text:tab/>"); i+=1; continue
        if c=="\n": out.append("<text:line-break/>"); i+=1; continue
        out.append(lit(c)); i+=1
    return "".join(out)
def enc_cell(t, f, span_at=None):
    if t=="":
        return "<text:p/>" if f.get("empty_as_p") else ""
    if f.get("paragraphs") and "\n" in t:
        return "".join("<text:p>%s</text:p>"%enc_text(p,f) for p in t.split("\n"))
    if span_at is not None and 0<span_at<len(t) and t[span_at-1] not in " \t\n" and t[span_at] not in " \t\n":
        return "<text:p>%s<text:span>%s</text:span></text:p>"%(enc_text(t[:span_at],f), enc_text(t[span_at:],f)) if f.get("spans")=="tail" else \
               "<text:p><text:span>%s</text:span>%s</text:p>"%(enc_text(t[:span_at],f), enc_text(t[span_at:],f))
    return "<text:p>%s</text:p>"%enc_text(t,f)
def enc_row(cells, f):
    out=[]; i=0
    while i<len(cells):
        j=i
        if f.get("col_runs"):
            while j+1<len(cells) and cells[j+1]==cells[i]: j+=1
        n=j-i+1
        attr=' table:number-columns-repeated="%d"'%n if n>1 else ""
        inner=enc_cell(cells[i], f, f.get("span_at"))
        out.append("<table:table-cell%s>%s</table:table-cell>"%(attr,inner) if inner else "<table:table-cell%s/>"%attr)
        i=j+1
    return "".join(out)
def enc_table(rows, f, name):
    out=[]; i=0
    while i<len(rows):
        j=i
        if f.get("row_runs"):
            while j+1<len(rows) and rows[j+1]==rows[i]: j+=1
        n=j-i+1
        attr=' table:number-rows-repeated="%d"'%n if n>1 else ""
        out.append("<table:table-row%s>%s</table:table-row>"%(attr,enc_row(rows[i],f)))
        i=j+1
    return '<table:table table:name="%s">%s</table:table>'%(name,"".join(out))
def write_ods(path, sheets, f):
    encoding=f.get("encoding","UTF-8")
    xml='<?xml version="1.0" encoding="%s"?><office:document-content %s office:version="1.2"><office:body><office:spreadsheet>%s</office:spreadsheet></office:body></office:document-content>'%(encoding,NS,"".join(enc_table(r,f,"S%d"%(i+1)) for i,r in enumerate(sheets)))
    with zipfile.ZipFile(path,"w",zipfile.ZIP_DEFLATED) as z:
        z.writestr("mimetype","application/vnd.oasis.opendocument.spreadsheet")
        z.writestr("content.xml", xml.encode(encoding))
# independent decoder (regex/sax-free minimal, uses ElementTree only for parsing)
from xml.etree import ElementTree as ET
T="{urn:oasis:names:tc:opendocument:xmlns:table:1.0}"; X="{urn:oasis:names:tc:opendocument:xmlns:text:1.0}"
def dec_text(e):
    s=e.text or ""
    for ch in e:
        if ch.tag==X+"s": s+=" "*int(ch.get(X+"c","1"))
        elif ch.tag==X+"tab": s+="\t"
        elif ch.tag==X+"line-break": s+="\n"
        else: s+=dec_text(ch)
        s+=ch.tail or ""
    return s
def read_ods(path, k):
    root=ET.fromstring(zipfile.ZipFile(path).read("content.xml"))
    tables=root.findall(".//"+T+"table"); t=tables[k-1]; rows=[]
    for r in t.findall(T+"table-row"):
        cells=[]
        for c in r.findall(T+"table-cell"):
            ps=c.findall(X+"p"); v="\n".join(dec_text(p) for p in ps)
            cells+= [v]*int(c.get(T+"number-columns-repeated","1"))
        rows+= [cells]*int(r.get(T+"number-rows-repeated","1"))
    return rows
