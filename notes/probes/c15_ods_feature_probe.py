import sys, warnings, os, tempfile, shutil, itertools, collections, time; warnings.simplefilter("ignore"); sys.path.insert(0,"/tmp/scr")
from cutplace import rowio, errors
import odfproto as O
d=tempfile.mkdtemp(dir="/tmp/scr"); p=os.path.join(d,"t.ods")
ALPHA=["","a","b","a b","a  b"," a","a ","a<&>\"'","ä€","a\tb","a\nb","  ","x\n\ny"]
FEATURES={"plain":{}, "col_runs":{"col_runs":1}, "row_runs":{"row_runs":1}, "empty_as_p":{"empty_as_p":1}, "explicit_c":{"explicit_c":1}, "all_spaces_as_s":{"all_spaces_as_s":1}, "paragraphs":{"paragraphs":1}, "span_head":{"spans":"head","span_at":1}, "span_tail":{"spans":"tail","span_at":1}, "utf16":{"encoding":"UTF-16"}, "latin1":{"encoding":"ISO-8859-1"}}
res=collections.OrderedDict(); t0=time.time(); n=0
tables=[[[c]] for c in ALPHA]+[[["a","a","b"],["a","a","b"],["",""]], [["a","b"],["a","b"],["a","b"],["c","d"]], [], [[]], [["",""],["",""]]]
for fname,f in FEATURES.items():
    for tab in tables:
        if f.get("encoding")=="ISO-8859-1" and any("€" in c for r in tab for c in r): continue
        O.write_ods(p,[tab,[["s2"]]],f); n+=1
        assert O.read_ods(p,1)==tab, ("encoder/decoder self-check", fname, tab, O.read_ods(p,1))
        try: got=list(rowio.ods_rows(p,1))
        except Exception as e: got="EXC %s %s"%(type(e).__name__, e)
        if got!=tab: res.setdefault(fname,[]).append((tab,got))
        s2=list(rowio.ods_rows(p,2))
        if s2!=[["s2"]]: res.setdefault(fname+":sheet2",[]).append((tab,s2))
print("files",n,"in %.1fs"%(time.time()-t0))
for k,v in res.items():
    print(k, len(v))
    for tab,got in v[:4]: print("    ",tab,"->",got)
shutil.rmtree(d)
