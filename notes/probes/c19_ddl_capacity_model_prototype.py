import sys, warnings, io, itertools, re, collections; warnings.simplefilter("ignore"); sys.path.insert(0,"/tmp/scr")
from cutplace import interface, errors, sql
B=sorted(set(s*v for s in (1,-1) for p in (7,8,15,16,31,32,63) for v in (2**p-1,2**p,2**p+1)) | {0,1,-1})
CAP={"tinyint":(0,255),"smallint":(-2**15,2**15-1),"int":(-2**31,2**31-1),"integer":(-2**31,2**31-1),"bigint":(-2**63,2**63-1)}
def cap(dialect,typ,p,s):
    if typ in ("decimal","number"):
        return ("digits", (p or 38)-(s or 0))
    if dialect in ("ANSI","PL/SQL") and typ=="int": return (None,None)
    return CAP[typ]
found=collections.OrderedDict(); n=0
for name,dia in sql.SQL_NAME_TO_DIALECT_MAP.items():
    for lo,hi in itertools.combinations_with_replacement(B,2):
        cid=interface.Cid(); cid.read("x",[["d","format","delimited"],["f","v","","","","Integer","%d...%d"%(lo,hi)],["f","select","","x","...10"],["f","amount","","","","Decimal","-99.999...100"]])
        n+=1
        try: ddl=sql.SqlFactory(cid,"t",dia).create_table_statement()
        except Exception as e:
            found.setdefault((name,"EXC",type(e).__name__),[]).append((lo,hi)); continue
        lines=[l.strip().rstrip(",") for l in ddl.splitlines()[1:-1]]
        m=re.fullmatch(r'("?\w+"?) (\w+)(?:\((\d+)(?:, (\d+))?\))?( not null)?', lines[0])
        if not m: found.setdefault((name,"unparsable",lines[0][:30]),[]).append((lo,hi)); continue
        typ=m.group(2); p=int(m.group(3)) if m.group(3) else None; s=int(m.group(4)) if m.group(4) else None
        c=cap(name,typ,p,s)
        if c[0]=="digits":
            if max(len(str(abs(lo))),len(str(abs(hi))))>c[1]: found.setdefault((name,"too small",typ),[]).append((lo,hi))
        elif c[0] is not None and not (c[0]<=lo and hi<=c[1]): found.setdefault((name,"too small",typ),[]).append((lo,hi))
        if not m.group(5): found.setdefault((name,"notnull missing"),[]).append((lo,hi))
        if lines[1]!='"select" %s(10)'%("varchar2" if name=="PL/SQL" else "varchar"): found.setdefault((name,"col2",lines[1]),[]).append(1)
        if not re.fullmatch(r'amount (decimal|number)\(5, 3\) not null', lines[2]): found.setdefault((name,"col3",lines[2]),[]).append(1)
print("cases",n)
for k,v in found.items(): print(k, len(v), v[:6])
