import sys, warnings, io, itertools, collections; warnings.simplefilter("ignore"); sys.path.insert(0,"/tmp/scr")
import cutplace
from cutplace import interface, errors, fields, checks
LOG=[]
class VerifRecAFieldFormat(fields.AbstractFieldFormat):
    def __init__(self, field_name, is_allowed_to_be_empty, length, rule, data_format):
        super().__init__(field_name, is_allowed_to_be_empty, length, rule, data_format, empty_value="<E>")
    def validated_value(self, value):
        LOG.append((self.field_name, "vv", value))
        if "!" in value: raise errors.FieldValueError("vetoed by hook")
        return value.upper()
class VerifProtoCheck(checks.AbstractCheck):
    # rule: "veto:<text>" vetoes rows containing text ; "end" fails at end ; "ok"
    def reset(self): LOG.append((self.description,"reset"))
    def check_row(self, m, location):
        LOG.append((self.description,"row", tuple(m.values())))
        if self.rule.startswith("veto:") and self.rule[5:] in m.values(): raise errors.CheckError("veto", location)
    def check_at_end(self, location):
        LOG.append((self.description,"end"))
        if self.rule == "end": raise errors.CheckError("end fail", location)
    def cleanup(self): LOG.append((self.description,"cleanup"))

def make_cid(fmt, header, fieldspecs, checkspecs, allowed):
    rows=[["d","format",fmt],["d","header",str(header)]]
    if fmt=="delimited": rows.append(["d","line delimiter","lf"])
    else: rows.append(["d","line delimiter","lf"])
    if allowed: rows.append(["d","allowed characters",allowed])
    for i,(empty,length) in enumerate(fieldspecs):
        rows.append(["f","f%d"%i,"","x" if empty else "",length,"VerifRecA",""])
    for i,rule in enumerate(checkspecs):
        rows.append(["c","k%d"%i,"VerifProto",rule])
    cid=interface.Cid(); cid.read("x",rows); return cid

def allowed_ok(ch_allowed, cell):
    if not ch_allowed: return True
    return all((ord(c)==32 or 97<=ord(c)<=122 or c=="!") if ch_allowed=="32, 33, 97...122" else True for c in cell)
def length_ok(length, n, fmt):
    if fmt=="fixed": return n<=int(length)
    if length=="": return True
    if "..." in length:
        lo,hi=length.split("..."); return (lo=="" or n>=int(lo)) and (hi=="" or n<=int(hi))
    return n==int(length)

WIDTHS=None
def predict(fmt, header, fieldspecs, checkspecs, allowed, table, mode, limit, closes=1):
    log=[("k%d"%i,"reset") for i in range(len(checkspecs))]
    out=[]; stopped=False
    for r,row in enumerate(table,1):
        if r<=header: continue
        verdict="ok"
        if limit is None or r<=limit:
            if len(row)!=len(fieldspecs): verdict="rej"
            else:
                for j,cell in enumerate(row):
                    empty,length=fieldspecs[j]
                    if not allowed_ok(allowed, cell): verdict="rej"; break
                    stripped = cell.strip() if fmt=="fixed" else cell
                    if stripped=="":
                        if not empty: verdict="rej"; break
                        continue   # (empty & allowed: length not checked when cell == "" ; for fixed blanks: length check applies to raw)
                    if not length_ok(length, len(cell), fmt): verdict="rej"; break
                    log.append(("f%d"%j,"vv",stripped))
                    if "!" in stripped: verdict="rej"; break
                if verdict=="ok":
                    for i,rule in enumerate(checkspecs):
                        log.append(("k%d"%i,"row",tuple(c.ljust(w) for c,w in zip(row,WIDTHS)) if WIDTHS else tuple(row)))
                        if rule.startswith("veto:") and rule[5:] in (tuple(c.ljust(w) for c,w in zip(row,WIDTHS)) if WIDTHS else row): verdict="rej"; break
        out.append(verdict)
        if verdict=="rej" and mode=="raise": stopped=True; break
    endfail=False
    for i,rule in enumerate(checkspecs):
        log.append(("k%d"%i,"end"))
        if rule=="end": endfail=True; break
    for i in range(len(checkspecs)): log.append(("k%d"%i,"cleanup"))
    return log, out, endfail

def run(cid, fmt, table, mode, limit, widths):
    del LOG[:]
    if fmt=="delimited": text="".join(",".join(r)+"\n" for r in table)
    else: text="".join("".join(c.ljust(w) for c,w in zip(r,widths))+"\n" for r in table)
    res=[]
    try:
        for x in cutplace.rows(cid, io.StringIO(text,newline=""), on_error=mode, validate_until=limit):
            res.append("rej" if isinstance(x,Exception) else "ok")
    except errors.CheckError as e: res.append("CHECKERR")
    except errors.DataError as e: res.append("RAISED")
    return list(LOG), res

cells=["ab","","a!","abcd","A"," "]
n=bad=0; shown=0
for fmt in ("delimited","fixed"):
  for header in (0,1):
    for fieldspecs in ([(False,"1...3" if fmt=="delimited" else "3")], [(True,"" if fmt=="delimited" else "4"),(False,"2" if fmt=="delimited" else "2")]):
      for checkspecs in ([],["ok"],["veto:ab","ok"],["ok","end","ok"]):
        for allowed in ("", "32, 33, 97...122"):
          cid=make_cid(fmt,header,fieldspecs,checkspecs,allowed)
          widths=[int(l) for _,l in fieldspecs] if fmt=="fixed" else None
          WIDTHS=widths
          rowpool=[list(t) for t in itertools.product(cells, repeat=len(fieldspecs))]
          if fmt=="delimited": rowpool += [["ab"]*(len(fieldspecs)+1)] + ([["ab"]*(len(fieldspecs)-1)] if len(fieldspecs)>1 else [])
          if fmt=="fixed": rowpool=[r for r in rowpool if all(len(c)<=w for c,w in zip(r,widths)) and not (len(r)==1 and r[0].strip()=="" )]
          for nrows in (0,1,2):
            for table in itertools.product(rowpool, repeat=nrows):
              if fmt=="delimited" and any(len(r)==1 and r[0]=="" for r in table): continue
              for mode in ("raise","yield","continue"):
                for limit in (None,0,1,2):
                  n+=1
                  plog,pout,endfail=predict(fmt,header,fieldspecs,checkspecs,allowed,[list(r) for r in table],mode,limit)
                  glog,gres=run(cid,fmt,[list(r) for r in table],mode,limit,widths)
                  if plog!=glog:
                      bad+=1
                      if shown<8: shown+=1; print("DIFF",fmt,header,fieldspecs,checkspecs,repr(allowed),table,mode,limit,"\n  pred",plog,"\n  got ",glog)
print("runs",n,"bad",bad)
