import sys, io, warnings
warnings.simplefilter("ignore")
sys.path.insert(0, "/repo")
import cutplace
from cutplace import interface, errors, fields, checks
LOG=[]
class VerifRecAFieldFormat(fields.AbstractFieldFormat):
    def __init__(self, field_name, is_allowed_to_be_empty, length, rule, data_format):
        super().__init__(field_name, is_allowed_to_be_empty, length, rule, data_format, empty_value="<E>")
    def validated_value(self, value):
        LOG.append((self.field_name, "vv", value))
        if value.startswith("!"): raise errors.FieldValueError("vetoed by hook")
        return value.upper()
class VerifVetoCheck(checks.AbstractCheck):
    def __init__(self, d, r, names, location=None):
        super().__init__(d, r, names, location); LOG.append((d,"init"))
    def reset(self): LOG.append((self.description,"reset"))
    def check_row(self, m, location):
        LOG.append((self.description,"row", tuple(m.values())))
        if self.rule in m.values(): raise errors.CheckError("veto", location)
    def check_at_end(self, location):
        LOG.append((self.description,"end"))
        if self.rule == "FAILEND": raise errors.CheckError("end fail", location)
    def cleanup(self): LOG.append((self.description,"cleanup"))
CID="d,format,delimited\nd,header,1\nd,allowed characters,33:126\nf,a,,,1:3,VerifRecA\nf,b,,X,,VerifRecA\nc,k1,VerifVeto,v\nc,k2,VerifVeto,FAILEND\nc,k3,VerifVeto,FAILEND\n"
cid=interface.create_cid_from_string(CID); print("init log", LOG); del LOG[:]
data="h,h\nx,y\nabcd,y\n!x,y\nx,!y\nx,\n,y\nv,y\nx,y,z\nx, \nq,r\n"
for mode in ("yield","raise","continue"):
    del LOG[:]
    try:
        res=[r if not isinstance(r,Exception) else "E:"+str(r)[:40] for r in cutplace.rows(cid, io.StringIO(data,newline=""), on_error=mode, validate_until=10)]
    except errors.CutplaceError as e: res=["RAISED "+str(e)[:50]]
    print(mode, res); print("   ", LOG)
del LOG[:]
w=cutplace.Writer(cid, io.StringIO())
for r in (["h","h"],["x","y"],["v","y"],["!x","y"]):
    try: w.write_row(r)
    except errors.CutplaceError as e: print("rej", e)
try: w.close()
except errors.CutplaceError as e: print("close", e)
w.close()
print("writer", LOG)
