import json, subprocess, sys, shutil, os, re, xml.etree.ElementTree as ET
STABLE=set(json.load(open("/root/.vp/BASELINE.json"))["stable_pass"])
MUTANTS = [
 ("C10 delimited undecodable bytes unwrapped","cutplace/rowio.py","        except (csv.Error, UnicodeDecodeError) as error:","        except csv.Error as error:"),
 ("C10 header non-number unwrapped","cutplace/data.py","        try:\n            result = int(value)\n        except ValueError:\n            raise errors.InterfaceError(\n                \"data format property %s is %s but must be a number\"","        try:\n            result = int(value)\n        except TypeError:\n            raise errors.InterfaceError(\n                \"data format property %s is %s but must be a number\""),
 ("C10 integer cell error unwrapped","cutplace/fields.py","        try:\n            value_as_int = int(value)\n        except ValueError:","        try:\n            value_as_int = int(value)\n        except TypeError:"),
 ("C10 ods xml parse error unwrapped","cutplace/rowio.py","            except Exception as error:\n                raise errors.DataFormatError(\"cannot parse content.xml: %s\" % error, location)","            except KeyError as error:\n                raise errors.DataFormatError(\"cannot parse content.xml: %s\" % error, location)"),
 ("C10 dc eval error unwrapped","cutplace/checks.py","        except Exception as message:\n            raise errors.InterfaceError(\n                \"cannot evaluate count expression","        except NameError as message:\n            raise errors.InterfaceError(\n                \"cannot evaluate count expression"),
 ("C10 field name error as NameError","cutplace/interface.py","            except NameError as error:\n                raise errors.InterfaceError(str(error), self._location)","            except KeyError as error:\n                raise errors.InterfaceError(str(error), self._location)"),
 ("C15 sheet index off by one","cutplace/rowio.py","    table_element = table_elements[sheet - 1]","    table_element = table_elements[max(0, sheet - 2)]"),
 ("C15 missing sheet clamps","cutplace/rowio.py","    if table_count < sheet:\n        error_message","    if table_count < sheet - 1:\n        error_message"),
 ("C15 repeat count zero accepted","cutplace/rowio.py","                if repeated_count < 1:","                if repeated_count < 0:"),
 ("C16 time detection by date zero","cutplace/rowio.py","        if cell_tuple[:3] == (0, 0, 0):","        if cell_tuple[:2] == (0, 0):"),
 ("C16 rows not padded","cutplace/rowio.py","                for x in range(sheet.ncols):","                for x in range(sheet.row_len(y)):"),
 ("C16 date without time","cutplace/rowio.py","            result = str(datetime.datetime(*cell_tuple))","            result = str(datetime.datetime(*cell_tuple)) if cell_tuple[3:] != (0, 0, 0) else str(datetime.date(*cell_tuple[:3]))"),
 ("C09 empty mark anything is true","cutplace/interface.py","        elif field_is_allowed_to_be_empty_text == self._EMPTY_INDICATOR:\n            field_is_allowed_to_be_empty = True\n        else:","        elif field_is_allowed_to_be_empty_text:\n            field_is_allowed_to_be_empty = True\n        else:"),
 ("C09 check before fields allowed","cutplace/checks.py","        if not available_field_names:\n            raise errors.InterfaceError(\"field names must be specified before check\", location_of_definition)","        if False:\n            raise errors.InterfaceError(\"field names must be specified before check\", location_of_definition)"),
 ("C09 trailing cells parsed","cutplace/interface.py","                row_data = (row[1:] + [\"\"] * 6)[:6]","                row_data = (row[1:] + [\"\"] * 6)[:7]"),
 ("C09 example not validated","cutplace/interface.py","        if field_example != \"\":\n            try:","        if False and field_example != \"\":\n            try:"),
 ("C19 db2 smallint threshold","cutplace/sql.py","            if length <= MAX_SMALLINT:\n                result = (\"smallint\", length)","            if length <= MAX_SMALLINT * 2:\n                result = (\"smallint\", length)"),
 ("C19 keywords not quoted for ansi","cutplace/sql.py","        return word.lower() in self.keywords","        return word in self.keywords and word != \"select\""),
 ("C20 reset only once per cid","cutplace/validio.py","        for check in self.cid.check_map.values():\n            check.reset()\n        header_row_count","        if self.accepted_rows_count is None:\n            for check in self.cid.check_map.values():\n                check.reset()\n        header_row_count"),
 ("C20 cleanup skipped on failing verdict","cutplace/validio.py","            finally:\n                for check in self.cid.check_map.values():\n                    check.cleanup()","            else:\n                for check in self.cid.check_map.values():\n                    check.cleanup()"),
 ("C14 fixed writer line delimiter ignored","cutplace/rowio.py","            self._line_separator = self.data_format.line_delimiter","            self._line_separator = \"\\n\""),
 ("C12 quoting all ignored","cutplace/rowio.py","        \"quoting\": delimited_data_format.quoting,","        \"quoting\": csv.QUOTE_MINIMAL,"),
 ("C12 escapechar always backslash","cutplace/rowio.py","        escapechar = delimited_data_format.escape_character\n","        escapechar = \"\\\\\"\n"),
 ("C18 env error exit 1","cutplace/applications.py","    except (EnvironmentError, OSError) as error:\n        result = 3","    except (EnvironmentError, OSError) as error:\n        result = 1"),
 ("C08 unique reset keeps map","cutplace/checks.py","    def reset(self):\n        self._row_key_to_location_map = {}","    def reset(self):\n        if self._row_key_to_location_map is None:\n            self._row_key_to_location_map = {}"),
]
def run_suite():
    subprocess.run(["/venv/bin/python","-m","pytest","-q","-p","no:cacheprovider","--timeout=120","--continue-on-collection-errors","--junitxml=/tmp/mut/j.xml","-x" if False else "-q"],cwd="/tmp/mut",stdout=subprocess.DEVNULL,stderr=subprocess.DEVNULL,timeout=600)
    passed=set()
    for tc in ET.parse("/tmp/mut/j.xml").getroot().iter("testcase"):
        if not list(tc):  # no failure/error/skipped child
            passed.add(tc.get("classname")+"::"+tc.get("name"))
    return passed
base=run_suite()
print("baseline on D1-patched copy: passed", len(base), "stable missing", len(STABLE-base))
for name,path,old,new in MUTANTS:
    src=open(path).read()
    if src.count(old)!=1: print("%-40s PATTERN count=%d"%(name,src.count(old))); continue
    open(path,"w").write(src.replace(old,new))
    try:
        p=run_suite()
        lost_stable=sorted(STABLE-p); lost_all=sorted(base-p)
        print("%-40s stable-killed=%d all-killed=%d %s"%(name,len(lost_stable),len(lost_all),[x.split("::")[-1] for x in lost_stable[:2]]))
    except Exception as e: print(name,"ERR",e)
    finally: open(path,"w").write(src)
