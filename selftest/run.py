#!/venv/bin/python
"""Self-tests of the reference models (no cutplace code involved): each model is compared with an independent
formulation - Python's own re / fnmatch / time.strptime / decimal, a brute-force search, or a decoder.
Exit 0 if all agree.  usage: selftest/run.py"""
import fnmatch
import itertools
import os
import re
import sys
import tempfile
import time

HERE = os.path.dirname(os.path.dirname(os.path.abspath(__file__)))
sys.path.insert(0, HERE)
from mc.models import fieldmodel, fixedspec, intervals, odf, rowmodel  # noqa: E402

failures = []


def check(name, condition, detail=""):
    if not condition:
        failures.append("%s %s" % (name, detail))


# intervals ------------------------------------------------------------------------------------
for items in ([(1, 3)], [(None, 0), (5, None)], [(2, 2), (4, 6)]):
    for value in range(-3, 9):
        brute = any((lo is None or lo <= value) and (hi is None or value <= hi) for lo, hi in items)
        check("intervals.accepts", intervals.accepts(items, value) == brute, (items, value))
check("intervals.limits", intervals.lower_limit([(1, 3), (None, 0)]) is None and intervals.upper_limit([(1, 3), (5, 9)]) == 9)
for value in (9, 10, 13, 65, 255, 256, -16):
    for spelling in intervals.limit_spellings(value):
        text = spelling
        if text.lower() in ("tab", "lf", "cr", "vt", "ff"):
            decoded = {"tab": 9, "lf": 10, "vt": 11, "ff": 12, "cr": 13}[text.lower()]
        elif text[0] in "'\"":
            decoded = ord(eval(text))
        else:
            decoded = int(text, 0)
        check("intervals.limit_spellings", decoded == value, (value, spelling))

# glob model against fnmatch, regex model against re -----------------------------------------------------
cells = ["".join(t) for n in range(1, 4) for t in itertools.product("aBc", repeat=n)]
glob_tokens = ["a", "b", "?", "*", ["set", "ab", False], ["set", "a", True], ["set", "a-c", False]]
for n in (1, 2, 3):
    for tokens in itertools.product(glob_tokens, repeat=n):
        pattern = "".join(fieldmodel.glob_token_text(t) for t in tokens)
        compiled = re.compile(fnmatch.translate(pattern), re.IGNORECASE)
        for cell in cells:
            expected = bool(compiled.match(cell))
            check("glob_model", fieldmodel.glob_model({"rule": {"tokens": list(tokens)}}, cell)[0] == expected, (pattern, cell))
rx_tokens = [["lit", "a"], ["any"], ["set", False, "ab"], ["set", True, "a"], ["*", ["lit", "a"]], ["+", ["lit", "b"]], ["?", ["lit", "c"]],
             ["alt", [["lit", "a"], ["lit", "b"]]], ["*", ["group", ["seq", [["lit", "a"], ["lit", "b"]]]]], ["*", ["any"]]]
for n in (1, 2):
    for tokens in itertools.product(rx_tokens, repeat=n):
        ast = ["seq", list(tokens)]
        compiled = re.compile(fieldmodel.rx_text(ast), re.IGNORECASE)
        for cell in cells:
            check("rx_model", fieldmodel.rx_model({"rule": {"ast": ast}}, cell)[0] == bool(compiled.match(cell)), (fieldmodel.rx_text(ast), cell))

# date layout model against time.strptime --------------------------------------------------------------
directive = {"DD": "%d", "MM": "%m", "YYYY": "%Y", "YY": "%y", "hh": "%H", "mm": "%M", "ss": "%S"}
grid = {"DD": [0, 1, 28, 29, 30, 31, 32], "MM": [0, 1, 2, 12, 13], "YYYY": [1999, 2000, 2023, 2024], "hh": [0, 23, 24], "mm": [0, 59, 60], "ss": [0, 59, 62]}
for parts, seps in ((["DD", "MM", "YYYY"], [".", "."]), (["YYYY", "MM", "DD"], ["-", "-"]), (["hh", "mm", "ss"], [":", ":"]), (["MM", "YYYY"], ["/"])):
    fmt = "".join(directive[p] + (seps[i] if i < len(seps) else "") for i, p in enumerate(parts))
    for combo in itertools.product(*[grid[p] for p in parts]):
        cell = fieldmodel.render_date_cell(parts, seps, dict(zip(parts, combo)))
        try:
            time.strptime(cell, fmt)
            expected = True
        except ValueError:
            expected = False
        verdict = fieldmodel.datetime_model({"fmt": "delimited", "rule": {"parts": parts, "seps": seps}}, cell)[0]
        check("datetime_model", verdict == expected, (fmt, cell, verdict))

# fixed-width specification against a brute-force decomposition search -----------------------------------------
def brute_reproduce(text, widths, delimiter, rows):
    total = sum(widths)
    options = fixedspec.permitted(delimiter)

    def search(position, index):
        if index == len(rows):
            return position == len(text)
        record = "".join(rows[index])
        if not text.startswith(record, position):
            return False
        position += len(record)
        last = index == len(rows) - 1
        return any(text.startswith(o, position) and search(position + len(o), index + 1) for o in options) or (last and position == len(text))

    if not rows:
        return text == ""
    return all(len(r) == len(widths) and all(len(c) == w for c, w in zip(r, widths)) for r in rows) and search(0, 0)


for widths in ([1], [2], [1, 1]):
    total = sum(widths)
    for delimiter in ("any", "\n", "\r", "\r\n", None):
        for length in range(0, 6):
            for letters in itertools.product("a\r\n", repeat=length):
                text = "".join(letters)
                # candidate rows: greedy split ignoring delimiters of the canonical reading
                state = fixedspec.greedy_start()
                rows, partial = [], ""
                for ch in text:
                    state = fixedspec.greedy_step(state, ch, total, delimiter)
                canonical = fixedspec.canonical_well_formed(text, total, delimiter)
                if canonical:
                    # build the rows the canonical reading defines and make sure both oracles accept them
                    records = [r for r in re.split(r"\r\n|\r|\n", text) if r] if delimiter is not None else [text[i:i + total] for i in range(0, len(text), total)]
                    split_rows = []
                    for record in records:
                        cellsplit, position = [], 0
                        for w in widths:
                            cellsplit.append(record[position:position + w])
                            position += w
                        split_rows.append(cellsplit)
                    check("fixedspec.canonical->reproduce", fixedspec.rows_reproduce(text, widths, delimiter, split_rows) and brute_reproduce(text, widths, delimiter, split_rows), (text, widths, delimiter))
                # well_formed against an independent formulation (a regular expression) and against the greedy automaton
                if delimiter != "any":
                    separator = "" if delimiter is None else re.escape(delimiter)
                    by_regex = re.fullmatch("(?:.{%d}%s)*(?:.{%d})?" % (total, separator, total), text, re.S) is not None
                    check("fixedspec.well_formed", fixedspec.well_formed(text, total, delimiter) == by_regex, (text, widths, delimiter))
                    check("fixedspec.well_formed->greedy alive", not fixedspec.well_formed(text, total, delimiter) or state[0] != "dead", (text, widths, delimiter))
                else:
                    check("fixedspec.well_formed(any)", fixedspec.well_formed(text, total, delimiter) == canonical, (text, widths, delimiter))
                for candidate in ([], [[text[:w] for w in widths]] if len(text) >= total else []):
                    check("fixedspec.rows_reproduce", fixedspec.rows_reproduce(text, widths, delimiter, candidate) == brute_reproduce(text, widths, delimiter, candidate), (text, widths, delimiter, candidate))

# ODF producer against the independent decoder --------------------------------------------------------------
tables = [[["a", "a", "b"], ["a", "a", "b"], ["", "c  d", " e "]], [["x\ty", "l1\nl2", "\n"], ["<&>\"", "ä€", ""]], [], [[], ["q"]]]
switches = [{"col_runs": True}, {"row_runs": True}, {"all_spaces_as_s": True}, {"explicit_c": True}, {"paragraphs": True}, {"span_at": 1, "spans": "head"},
            {"span_range": [1, 4]}, {"span_range": [0, 3], "span_nested": True}, {"empty_as_p": True}, {"encoding": "UTF-16"}, {"filler": True}]
with tempfile.TemporaryDirectory() as folder:
    path = os.path.join(folder, "t.ods")
    for count in (0, 1, 2):
        for combo in itertools.combinations(switches, count):
            features = {}
            for item in combo:
                features.update(item)
            for table in tables:
                odf.write_ods(path, [[["other"]], table], features)
                check("odf.roundtrip", odf.read_ods(path, 2) == [list(r) for r in table], (features, table))

# row model ---------------------------------------------------------------------------------------------------
decls = [{"type": "Integer", "name": "id", "fmt": "delimited", "empty": False, "rule": {"items": [[0, 9, False]]}}, {"type": "Text", "name": "t", "fmt": "delimited", "empty": True}]
prediction = rowmodel.predict(decls, [["u", "IsUnique", "id"], ["d", "DistinctCount", "t < 2"]], 1, None, [["h", "h"], ["1", "a"], ["1", "b"], ["x", ""], ["2"], ["3", "c"]])
kinds = [e[0] if e[0] == "row" else e[1]["reason"] for e in prediction["events"]]
check("rowmodel.predict", kinds == ["row", "duplicate", "rule", "item-count", "row"] and prediction["close"] == "d" and (prediction["accepted"], prediction["rejected"]) == (2, 3), kinds)
check("rowmodel.excel_normalize", rowmodel.excel_normalize([["a", ""], ["", ""], ["b", "", ""], ["", ""]]) == [["a"], [""], ["b"]])

if failures:
    print("SELFTEST FAILED: %d disagreements" % len(failures))
    for line in failures[:20]:
        print("  ", line)
    sys.exit(2)
print("selftest ok")
