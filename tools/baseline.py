#!/venv/bin/python
"""Run the repository's baseline test command on a tree (default /repo) and compare with
the 218 stable passes of /root/.vp/BASELINE.json.  Exit 0 iff every stable test passes."""
import json
import os
import subprocess
import sys
import tempfile
import xml.etree.ElementTree as ET

repo = os.path.abspath(sys.argv[1]) if len(sys.argv) > 1 else "/repo"
baseline = json.load(open("/root/.vp/BASELINE.json"))
stable = set(baseline["stable_pass"])
with tempfile.TemporaryDirectory() as tmp:
    junit = os.path.join(tmp, "junit.xml")
    os.makedirs(os.path.join(repo, "tests", "results"), exist_ok=True)
    env = dict(os.environ)
    env.pop("CUTPLACE_VERIF", None)
    env["PYTHONPATH"] = repo
    cmd = ["/venv/bin/python", "-m", "pytest", "-ra", "-q", "-p", "no:cacheprovider", "--timeout=900",
           "--continue-on-collection-errors", "--junitxml=" + junit]
    done = subprocess.run(cmd, cwd=repo, env=env, capture_output=True, text=True)
    passed = set()
    failed = set()
    for case in ET.parse(junit).getroot().iter("testcase"):
        name = "%s::%s" % (case.get("classname"), case.get("name"))
        bad = any(child.tag in ("failure", "error", "skipped") for child in case)
        (failed if bad else passed).add(name)
missing = sorted(stable - passed)
print("passed=%d failed=%d stable_missing=%d" % (len(passed), len(failed), len(missing)))
for name in missing:
    print("  MISSING", name)
if "-v" in sys.argv:
    for name in sorted(failed):
        print("  failed", name)
# the suite writes this file into the tree it runs in
stray = os.path.join(repo, "tests", "data", "cids", "cid_customers.csv")
if os.path.exists(stray) and subprocess.run(["git", "-C", repo, "ls-files", "--error-unmatch", stray], capture_output=True).returncode != 0:
    os.remove(stray)
sys.exit(1 if missing else 0)
