#!/venv/bin/python
"""Regenerate MANIFEST.json from the table below (keeps the manifest valid at all times)."""
import json
import os

HERE = os.path.dirname(os.path.dirname(os.path.abspath(__file__)))
BASELINE_CMD = ("cd /repo && env -u CUTPLACE_VERIF /venv/bin/python -m pytest -ra -q -p no:cacheprovider --timeout=900 "
                "--continue-on-collection-errors --junitxml=/tmp/cutplace_baseline_junit.xml")

# property -> (technique, level text, level note, design ref)
BUILT = {
    "C01": (
        "deviation-bounded exhaustive enumeration of rendered range descriptions x boundary probes against an interval model",
        "Every description rendered from every item structure (1-4 items over a limit pool, plus the complete small-scope sweep over limits -2..2) in every documented spelling up to the stated number of non-default spelling choices is declared on the real Range/DecimalRange and probed at every boundary, its neighbours and far outside; verdicts and overall limits are compared with an interval model and all spellings of one structure must reach the same (items, lower, upper) state.",
        "Trusted: the 60-line interval model and renderer (mc/models/intervals.py). Values and spellings outside the stated pools are not covered.",
        "DESIGN.md §4 C01",
    ),
}

NOT_YET = "check not built yet in this session; the design (DESIGN.md §4) decides it by bounded exhaustive exploration"


def main():
    ids = [json.loads(line)["id"] for line in open(os.path.join(HERE, "properties.jsonl"))]
    checks = []
    not_applicable = []
    for pid in ids:
        if pid in BUILT:
            technique, text, note, ref = BUILT[pid]
            checks.append({
                "property_id": pid,
                "quick_cmd": "./check %s --tier quick" % pid,
                "thorough_cmd": "./check %s --tier thorough" % pid,
                "evidence_file": "evidence/%s.json" % pid,
                "replay_cmd_template": "./check %s --replay {path}" % pid,
                "engine": "mc",
                "level_claimed": {"category": "model_checking", "text": text, "design_ref": ref},
                "level_note": note,
                "technique": technique,
            })
        else:
            not_applicable.append({"property_id": pid, "reason": NOT_YET})
    manifest = {
        "version": 1,
        "setup_cmd": "./check --setup",
        "hooks": {
            "guard": "CUTPLACE_VERIF",
            "enable": "no source hooks are needed: checks import /repo's working tree directly (mc/repo.py) and observe through the public API and Python introspection; CUTPLACE_VERIF=1 is exported by the runner but nothing in /repo reads it",
            "baseline_off_cmd": BASELINE_CMD,
            "source_commits": [],
            "add_only": True,
        },
        "engines": [{
            "name": "mc",
            "path": "mc/",
            "serves_properties": sorted(BUILT),
            "kind_free_text": "hand-written explicit-state / bounded-exhaustive explorers in Python driving the real cutplace code against reference models (product explorer with deviation bound, BFS history explorer with canonical-state merging, stream fixpoint explorer)",
        }],
        "checks": checks,
        "notes": "Exit codes: 0 held, 1 VIOLATION line printed, 2 harness error. known_findings.json lists recorded and fixed defects. VERIF_SEED only rotates enumeration start and sample selection.",
        "not_applicable": not_applicable,
    }
    with open(os.path.join(HERE, "MANIFEST.json"), "w") as manifest_file:
        json.dump(manifest, manifest_file, indent=1)
        manifest_file.write("\n")


if __name__ == "__main__":
    main()
