#!/venv/bin/python
"""Regenerate MANIFEST.json from the table below (keeps the manifest valid at all times)."""
import json
import os

HERE = os.path.dirname(os.path.dirname(os.path.abspath(__file__)))
BASELINE_CMD = ("cd /repo && env -u CUTPLACE_VERIF /venv/bin/python -m pytest -ra -q -p no:cacheprovider --timeout=900 "
                "--continue-on-collection-errors --junitxml=/tmp/cutplace_baseline_junit.xml")

# property -> (technique, level text, level note, design ref)
BUILT = {
    "C01": (
        "deviation-bounded exhaustive enumeration of rendered range descriptions x boundary probes against an interval model",
        "Every description rendered from every item structure (1-4 items over a limit pool, plus the complete small-scope sweep over limits -2..2) in every documented spelling up to the stated number of non-default spelling choices is declared on the real Range/DecimalRange and probed at every boundary, its neighbours and far outside; verdicts and overall limits are compared with an interval model and all spellings of one structure must reach the same (items, lower, upper) state.",
        "Trusted: the 60-line interval model and renderer (mc/models/intervals.py). Values and spellings outside the stated pools are not covered.",
        "DESIGN.md §4 C01",
    ),
    "C02": (
        "bounded exhaustive enumeration of field declarations x generated cells against per-type reference models (interval, glob, regex-subset, date-layout, decimal-text matchers); two API paths compared",
        "Every declaration from the per-type rule grammars (integer/decimal range structures, choice lists, constants, date layouts, globs and a regex subset up to depth 3/4) x format presets is built on the real field classes; every cell generated from the rule or by one mutation is validated and verdict and native value are compared with hand-written models; integer ranges derived from a length are swept over every integer of up to 5/6 characters; the direct constructor path and the CID-row + cutplace.rows path must agree.",
        "Trusted: mc/models/fieldmodel.py. Grey zones (malformed thousands grouping, seconds 60-61, exotic integer spellings) are not judged.",
        "DESIGN.md §4 C02",
    ),
    "C03": (
        "full product enumeration of guard configurations (type x empty flag x length x allowed characters x format) x guard-oriented cells against a guard model",
        "The complete product of 8 types x empty flag x 6 length declarations x 4 allowed-character ranges x 4 formats is declared on the real classes and probed with empty, blank-only, too short, too long and one-disallowed-character-at-every-position cells; verdict, guard order and the empty value are compared with the model.",
        "Trusted: guards() in mc/models/fieldmodel.py; for fixed data the allowed ranges always contain the blank.",
        "DESIGN.md §4 C03",
    ),
    "C04": (
        "explicit-state BFS over tables on the real Reader with product-state merging (implementation snapshot x row model), every edge compared with the model",
        "Breadth-first search over row sequences for 12 field sets x 4 formats (delimited, fixed, generated ODS and XLSX files) x header 0..2: every row shape (accepted rows, one bad cell per column, two bad cells, short/long/empty rows) is appended in every distinct product state; each edge re-runs the table on a fresh Reader and compares verdicts, error class, row number incl. header, first offending column, field and input name, counters and end verdict with the row model.",
        "Trusted: mc/models/rowmodel.py composed from the per-field model; the ODS producer mc/models/odf.py and xlsxwriter as independent file producers.",
        "DESIGN.md §4 C04",
    ),
    "C05": (
        "explicit-state BFS over row sequences on the real Reader (all three error modes) with product-state merging, compared with dict/set models of the checks",
        "BFS over row sequences (depth 4-6 quick, 6-10 thorough) for key sets of 1..3 fields, every comparison operator x thresholds 0..4, both declaration orders and two IsUnique checks; each edge is run in yield, continue and raise mode on fresh readers, through cutplace.rows() (end-of-data verdict delivered at exhaustion) and on a reader that was constructed before another complete read of the same CID; rejections, first-occurrence back references and end-of-data verdicts are compared with the model.",
        "Trusted: rowmodel.Run (a dict and a set). Rows vetoed by an earlier-declared check do not reach later checks.",
        "DESIGN.md §4 C05",
    ),
    "C06": (
        "explicit-state BFS over tables with a relational (differential) oracle between the three error modes, plus exhaustive container-fault enumeration at every row boundary",
        "For every table reached by BFS (C04 configurations plus CIDs with end-of-data checks, 4 formats) the outputs of cutplace.rows in yield/continue/raise mode, the Reader counters and three readers constructed up front on one shared CID are compared with each other; container faults (undecodable byte, unterminated quote, record cut short, truncated / directory-less ODS and XLSX archives) are injected at every row / every 64th (thorough: every) byte and must end every mode with a DataFormatError.",
        "Differential oracle: no expected values are hand-written. Rows before a container fault may or may not be produced.",
        "DESIGN.md §4 C06",
    ),
    "C07": (
        "full product enumeration of header x rows x limit x bad-row position x API against the closed-form oracle of the statement",
        "All combinations of header 0..3, 0..6 data rows, limit none/0..rows+header+1, one bad row at every position (also inside the header, 4 kinds) for delimited and fixed data are run through cutplace.rows in 3 modes, cutplace.validate and applications.main --until; a rejection must be reported iff position > header and (no limit or position <= limit) and all data rows must be returned.",
        "Trusted: the closed formula. In fixed format a bad row is a bad cell only.",
        "DESIGN.md §4 C07",
    ),
    "C08": (
        "explicit-state BFS over operation histories on one shared CID to the fixpoint of the canonical CID state; differential oracle against a freshly loaded CID",
        "27 operations (reads in 3 modes, abandoned and never-closed reads, readers constructed now and consumed later, validate, writes with/without close, CutplaceApp.validate) are applied in every distinct canonical state of the shared CID (structural snapshot of its check objects plus the readers still held); the search reaches the fixpoint, so histories of every length are covered; every observation must equal that of the same operation on a fresh CID; histories up to depth 2/3 are also enumerated without merging.",
        "Trusted: the structural snapshot (mc/snapshot.py) as state identity; held generators are closed by the harness.",
        "DESIGN.md §4 C08",
    ),
    "C09": (
        "bounded exhaustive enumeration of generated CIDs x meaning-preserving rewrites (singly and in pairs) x a catalogue of single structural defects at every applicable row",
        "40 (thorough 400) generated valid CIDs over 4 formats, 1-7 fields of all 8 types, 0-3 checks, with and without comment rows; every rewrite (comment rows at every position, trailing cells, case of markers / property / format names, blanks, underscores, permuted and late property rows) must load to the same definition snapshot; each of ~60 structural defects is injected at every applicable row and must raise an InterfaceError whose first location names that row.",
        "Trusted: mc/models/cidgrammar.py (CIDs are rendered from structures; the oracle never parses). Completeness defects are judged by exception type only.",
        "DESIGN.md §4 C09",
    ),
    "C10": (
        "deviation-bounded exhaustive fault injection (one hostile cell at a time, pairs in the thorough tier; container truncation / bit flips at every offset) through every public entry point",
        "Every cell of every row of 4 valid base CIDs (all field types, both checks) and of their data is replaced by each of ~115 hostile values; containers (csv, fixed, ods, xlsx data; csv, ods, xlsx CIDs) are truncated and bit-flipped at every (quick: every 16th for archives) offset and at every byte of the zip structural records; text data are also fed as line-ending preserving streams in 4 line-ending styles, quoted and unquoted, with every single-character deletion / replacement / insertion; each case runs Cid.read, rows x 3 modes, validate, Writer and applications.main; only InterfaceError / DataError may escape and main must not return 4.",
        "Oracle is the exception type only. One recorded known finding (absurdly large field lengths, known_findings.json).",
        "DESIGN.md §4 C10",
    ),
    "C11": (
        "full enumeration of property x format x spelling / value tables transcribed from the documentation, plus all pairs for the consistency rules",
        "Applicability of all 12 properties x 4 formats in 6 name spellings; every documented spelling (literal, decimal, hex, quoted, escapes, symbolic names in 3 cases) of 100 code points as item delimiter plus 24 malformed spellings; every printable ASCII character as quote / escape / decimal / thousands character; line delimiter names, 21 encodings, Header / Sheet values, all (item delimiter, quote character) pairs in both orders, decimal x thousands, and the defaults; each through Cid.read with effective values compared.",
        "Trusted: the tables in mc/props/c11.py transcribed from the statement and docs/writing-an-icd.rst; documented grey zones accept either outcome.",
        "DESIGN.md §4 C11",
    ),
    "C12": (
        "full product enumeration of delimited configurations x bounded table sets over an alphabet of the configured special characters; write + read round trip on the real code",
        "All 16 x 20 x 2 x 2 x 4 combinations of item delimiter, quote, escape, quoting and line delimiter are declared through Cid.read; for each accepted one every table of the bounded set (all 1x1, 1x2, 2x1, sparse 2x2 / 1x3 / 3x1; thorough: all 2x2 and more) over 15 cells containing delimiter, quote, escape, blanks and line breaks is written and read back through rowio and, for one-row tables, through cutplace.Writer / cutplace.rows.",
        "The csv engine is executed, not modelled; rows of zero cells and skip-initial-space are outside the statement.",
        "DESIGN.md §4 C12",
    ),
    "C13": (
        "bounded exhaustive enumeration of input strings plus explicit-state fixpoint search over the product of the real fixed_rows generator frame state and specification automata",
        "(1) all strings over {a,b,CR,LF} up to length 8 (thorough 10) x width lists x 5 delimiter settings; (3) every single-character mutation of longer well-formed files; (2) BFS over input prefixes where the state is a structural snapshot of the suspended fixed_rows generator frame (blocked on a harness stream) x greedy and canonical specification states, explored to the fixpoint, i.e. all inputs of every length; oracle: returned rows have the declared widths and reproduce the input with some permitted delimiters, and canonically well-formed inputs are never rejected.",
        "Trusted: mc/models/fixedspec.py. The snapshot walks every frame between the blocked read and the harness, whatever the functions are called; only the stream, Location objects and loop temporaries are ignored.",
        "DESIGN.md §4 C13",
    ),
    "C14": (
        "explicit-state BFS over write sequences on the real Writer with product-state merging; per-transition stream deltas compared with the rendering rules; final read-back",
        "For delimited and fixed CIDs x header 0-1 x 4 line delimiters x 3 field/check sets every row shape (accepted, duplicate key, bad cell per column, too long, short, long, empty) is written in every distinct product state; accepted rows must extend the stream by exactly their rendering with the declared line end, rejected rows must raise a cutplace error and emit nothing, close must agree with the DistinctCount model and the output must read back under a fresh CID.",
        "Trusted: rowmodel.Run for verdicts; Python's csv module configured independently to parse delimited deltas back.",
        "DESIGN.md §4 C14",
    ),
    "C20": (
        "explicit-state BFS plus bounded enumeration over tables and run sequences with recording subclasses; recorded call log compared with a protocol model",
        "Recording field format and check classes are resolved through CID rows; for ~100 configurations (1-3 fields with empty flag / length / allowed characters, 0-3 checks that accept, veto or fail at the end, header 0-2, delimited and fixed) and 19 run variants (reader x 3 modes x limits, explicit close inside with, validate, abandoned reader, writer with double close) plus all pairs of runs on one CID and on two different CIDs in one process (allowed characters, empty flags, checks differ), allowed ranges without the blank for fixed data and padded writer values, the recorded call sequence must equal the model's; plugin-folder scenarios run in subprocesses.",
        "Trusted: mc/models/protocol.py. Resets and cleanups are compared as unordered blocks; after a failing end verdict later ones may or may not be asked.",
        "DESIGN.md §4 C20",
    ),
    "C15": (
        "deviation-bounded exhaustive enumeration of tables x encoding-feature switches written by an independent ODF producer, plus exhaustive container-fault enumeration",
        "All small tables over a text alphabet (blanks, tabs, line breaks, XML-special and non-ASCII characters) and 10 structured tables (runs, duplicate rows, ragged and empty rows, up to 6x8) are written as real .ods files with every subset of up to 3 (thorough: all) of 12 optional encoding features (column / row runs, text:s variants, paragraphs, spans at a split point, spans around a text range also nested, empty text:p, UTF-16, office filler), 1-3 sheets; rowio.ods_rows and cutplace.rows must return the logical table; not-a-zip, missing content.xml, content.xml cut at every tag boundary, malformed repeat counts, missing sheets and truncation at every 64th (thorough: every) byte must give DataFormatError.",
        "Trusted: mc/models/odf.py (producer, self-checked on every file by an independent decoder). One recorded known finding (row runs are not expanded).",
        "DESIGN.md §4 C15",
    ),
    "C16": (
        "bounded exhaustive enumeration of generated workbook cells (xlsxwriter as independent producer) against the documented rendering rules",
        "Strings, integers at every power-of-ten and power-of-two boundary up to 2^53, a float grid, booleans, dates (quick: boundary days of 40 years; thorough: every date 1900-03-01..9999-12-31), times (thorough: every second of a day), date+time boundaries, 1-3 sheets x requested sheet 1-4 through excel_rows and the Sheet property, and the XlsxRowWriter round trip over string tables.",
        "Trusted: xlsxwriter as producer and the rendering rules of the statement; numbers are compared after rounding to the 16 significant digits an xlsx file stores.",
        "DESIGN.md §4 C16",
    ),
    "C17": (
        "bounded exhaustive enumeration with a differential oracle across storage formats (3 CID storages x 3 data formats)",
        "(a) every generated CID is stored as CSV, ODS (two encodings) and XLSX and must load into an equal definition snapshot; (b) every generated table (accepted cells incl. date+time values at midnight, text ending in '.0' and blank runs, every rejected cell of every column, empty cells, duplicate keys) is stored as delimited text, ODS (with inline elements around part of every longer cell) and XLSX (sheet 1 or 2) and read under CIDs differing only in Format, each CID itself stored in the three ways: all 9 event lists must be equal.",
        "Differential oracle, no hand-written expectations. Tables keep their last column non-empty (xlsx does not store empty strings).",
        "DESIGN.md §4 C17",
    ),
    "C18": (
        "full product enumeration of CID kind x ordered data-file lists x --until x argument faults through applications.main, differential oracle via the API on a fresh CID",
        "4 CID kinds x all 259 ordered lists of 0..3 data files over 6 kinds x 6 --until values plus 8 argument faults, in-process; a subset as real subprocesses; expected exit code 2 / 3 / 1 / 0 where 'rejected' is decided by cutplace.rows on a freshly loaded CID, so independence from siblings and order follows.",
        "Trusted: the exit-code table of the statement; files after the first unreadable one are not judged.",
        "DESIGN.md §4 C18",
    ),
    "C19": (
        "full enumeration of integer range pairs over the type-boundary set x 4 dialects plus generated multi-column CIDs; generated DDL parsed back and compared with the CID",
        "All pairs lo <= hi over 49 boundary values (around 2^7, 2^8, 2^15, 2^16, 2^31, 2^32, 2^63, both signs) x 4 dialects (the four dialects interleaved for every CID within one process), multi-item rules and lengths in both orders, length-derived and default ranges, and 1-6 column CIDs over 40 typed declarations with keyword names: column count and order, keyword quoting against the dialect's own list, NOT NULL, integer capacity under the dialect's semantics, decimal digits and text lengths.",
        "Trusted: capacity table per dialect (ANSI / PL/SQL int never alarm). One recorded known finding (Transact-SQL tinyint for negative lower limits).",
        "DESIGN.md §4 C19",
    ),
}

NOT_YET = "check not built yet in this session; the design (DESIGN.md §4) decides it by bounded exhaustive exploration"


# extensions added after the seeded-change waves 5 and 6 (appended to the level text)
ADDENDA = {
    "C01": "Decimal probes include neighbours at distance 1E-30 of every limit (computed exactly) and 31-digit limits; syntax and white-space characters (quotes, comma, dot, colon, backslash, tab, no-break space) occur as quoted limits. Decimal limits of 17 to 24 digits are mixed with limits of other precisions. Decimal limits are probed in several spellings of the same number; multi-item integer descriptions are also judged as allowed characters through a Text field. The allowed-characters route goes through CIDs read from rows, property row before and behind the field. The same route also goes through a fixed-width CID with cells padded by blanks.",
    "C02": "Choice / Constant values that begin or end with a quote character or consist of three dots are included, three-dot RegEx / Pattern rules also through the CID path; every cell is validated twice on the same field object. The cells of Excel / ODS declarations are also stored as text cells of a real sheet and read through the container reader. Decimal cells of more than 28 digits, Excel number cells (not only text cells), a decimal comma without grouping and separator rows behind the field rows are included. RegEx rules with non-ASCII letters and Decimal examples in front of the separator rows are included. Decimal cells in scientific notation and integers far beyond 32 bit under open-ended lengths are included.",
    "C03": "The CID path writes the allowed range with quoted characters and places it before and behind the field rows; lengths with an upper limit of 0, line breaks as disallowed characters and wrong-length spellings of in-range numbers are included. Decimal cells written with thousands separators are included. Cells are also written through the validating Writer behind a header row; U+0000 is among the disallowed characters. Excel and ODS cells (text and number cells) are also read through the container readers, with surplus or disallowed characters behind ODF white-space elements.",
    "C04": "With row checks declared, two Readers constructed up front on one CID are consumed one after the other and the second is judged like the first; returned rows are read only after the iteration has finished; row shapes include rows ending in empty cells, rows of empty cells only, cells and choices holding percent signs, and a Decimal key with equal numbers in different spellings. One Reader is iterated a second time (row numbers start again); key fields hold tabs. Check descriptions carry blanks at either end; field sets with free text also run under an ASCII-only data format. Allowed characters are also written with quoted capital letters. Fixed data with one malformed line (surplus character, foreign line end) at every position of short tables are included.",
    "C05": "Keys and counted values that differ only in the position of a blank are included. The row model registers IsUnique keys for accepted rows only (the difference to the implementation is the known finding KF-C05-key-of-rejected-row); an optional counted field and tab-holding keys are included. Short tables also go through the command line. Field names differing only in case are included. Keys holding a comma and a blank are included; cutplace.validate() runs without limit and with limits of all rows and all but the last.",
    "C06": "The unterminated-quote fault is injected under six quote / escape / quoting / line-delimiter configurations, also into single-record data; undecodable bytes also sit where a line delimiter is read; the tree's own binary .xls workbook is damaged byte by byte (any ending but a cutplace data error fails, a container failure must show in every mode). A run that ends with anything but a cutplace error fails by itself; NaN and non-decimal digits are among the rejected cells; tables shorter than the header are judged. Archives are also damaged by inverting single bytes. Container faults also arrive through stream sources. Fixed data with CR record ends under 'any' are included.",
    "C07": "One Reader object is iterated three times over a rewound source; delimited header records also span several physical lines; an allowed-characters declaration is violated by header rows and by rows behind the limit; ODS and Excel data (also with rows of empty cells) and limits beyond 256 are included. The product is repeated under a CID with IsUnique and DistinctCount checks (repeated key as the bad row, failing end-of-data verdicts, verdict of close()). Data that end inside the header are included. Fixed data without line delimiter are included. validate() with a limit is given data torn behind the limit. Excel sheets with a date cell that cannot be converted at every row are validated under every limit.",
    "C08": "27 operations including a Reader iterated twice and a Writer used as context manager; three CIDs (delimited, fixed, fixed with CR line ends under 'any'). Operations also include validate with a limit of 0 / 1, a Reader opened and closed unread, and data with a rejected choice / disallowed character; the CID's definition is part of the canonical state. Reads with a validation limit through cutplace.rows and repeated empty required values are included. A repeated pass over one Reader must equal its first pass. Multi-part ranges and runs finalised during another run are included. A data set without any row is read, validated, written and judged by the command line in every state (43 operations).",
    "C09": "Every CID is loaded twice (verdict and definition must not change); every pair of property rows is exchanged and the block reversed; every field-row defect is repeated without the example (nothing else may be the reason for the rejection); untokenizable check rules, touching range items and allowed characters with quoted upper-case limits are included. Field names with non-ASCII digits and letters are included. Invalid values for every data format property, reversed lengths ending at 0 and DateTime rules repeating a part are included. Integer fields without rule and with a non-positive length are included. Shifted check rows and property names that are method names are included. Blanks and tabs around length cells and the allowed-characters value are included.",
    "C10": "Pool extended by 'sound first token + broken rest' values, lengths open on both sides and continuation-line rules; 33 natively typed Excel cells (date / time / duration formatted numbers outside the date range, extreme numbers, booleans, error values) at every data position; bit flips over the tree's own .xls workbook, each read under an alarm (non-termination is reported). Sheet numbers right behind the last sheet, digits that are no decimal digits and regular expressions the compiler gives up on are in the pool. Streams whose name is None, empty or a number are used as sources and targets; huge hexadecimal limits are in the pool. Property names that are attribute names of the loaded objects are in the pool. All delimited / fixed properties are present in the base CIDs; ODS repeat-count attributes and rules reaching for builtins are in the pool. Cells too long for a fixed field only by surrounding blanks, no-break spaces next to names in check rules and raw xlsx number cells (NaN, Infinity, 1e400; date formatted and plain) are included.",
    "C11": "Every case is loaded twice, and all cases run several times in one single process (accept-first, reversed, forward) with a history-independent verdict required; allowed-characters values are probed code point by code point. Raw line-break characters as line delimiter value and equal separators next to every line delimiter setting (three declaration orders) are included. Encoding names with colons and blanks are included. The escape character is declared next to every quote character in both orders. Every property is also given empty, blank and valid values followed by remark cells.",
    "C12": "Round trips also go through a file that the reader opens itself (path source), through rowio and the API; the table without rows, a cell holding every character str.splitlines() splits at, and an explicit 'Skip initial space: False' are included. Targets the writers open themselves (a new file, a file with older content) are included. write_rows() also receives one-shot iterables. The escape row precedes the quote row in half of the configurations. Tables of two and three rows also go through the Writer / cutplace.rows route.",
    "C13": "The bounded enumeration is repeated (shorter strings, four width lists) through files the reader opens itself; with one fixed delimiter or none every decomposable input must be accepted (unique decomposition). All strings up to length 6 are also read through cutplace.rows under a CID declaring widths and line delimiter. Files in UTF-16 / UTF-32 / UTF-8 with non-ASCII characters are read under CIDs declaring that encoding. Streams are also handed over behind a title line the caller has read. The CID route also runs in the error modes continue and yield.",
    "C14": "Fixed data also without line delimiter (none); delimited rows include accepted cells ending in CR LF and holding form feed / line separator; every table also goes through one write_rows() call; all-optional field sets and rejected duplicates carrying new values for later checks are included. Every sequence is also written to a file the writer opens itself, followed by a row the encoding cannot hold; the file must equal the stream output. Short sequences are repeated with the CID given as a path; four more quote / escape relations are included. A free-text last column with values ending in or consisting of white space is included. Printable-ASCII-only configurations are included. A row with one surplus empty item is among the row shapes.",
    "C15": "Hostile repeat counts include signs, superscript and circled digits, zero in several spellings. Cell comments (office:annotation) are a producer feature. Documents are also read twice from one open stream. Pretty-printed content.xml, named in-memory streams and absurd repeat counts / nesting are included. Archives are damaged by inverting single bytes; sheet names hold percent signs. Every fault is also read through cutplace.rows() in the lenient error modes; hyperlink elements around text are included.",
    "C16": "Every pattern of stored / missing cells in small sparse sheets is enumerated (rows padded to the sheet width); midnight and 23:59:59 are among the time cells. Strings that look like markup, formulas or links and strings at the 32767-character limit go through the writer; date cells are read under date-only DateTime fields. Mixed write_row() / write_rows() calls and a refused row between ordinary rows are included. Workbooks in the 1904 date system and long cells full of control characters are included.",
    "C17": "ODS data are stored with column runs, inline elements and one paragraph per line; delimited data as a UTF-8 file the reader opens itself; tables include rows ending in empty cells, U+0085 / U+2028 and a leading U+FEFF; delimiter-rich one-field CIDs are included. Cell comments in ODS CIDs and data and rows of empty cells between other rows are included. Padded and blank-only cells and a date text with a midnight suffix are included. Tables wider than the CID and CID files with capital suffixes are included. CIDs with blanks in front of descriptions, rules and examples, and multi-line header cells are included. CIDs and data are also stored with hyperlink elements around text.",
    "C18": "CIDs with one and two header rows, field-less CIDs, empty data files and data in the data format's default encoding are included. Missing CIDs named like ODS / Excel files are included. Data file names with glob characters are included. A CID whose verdict falls at the end of the data (DistinctCount) is judged under every --until.",
    "C19": "Every reserved word of every dialect (lower, upper, title case) is used as a field name against a reference copy of the keyword lists; one factory is asked twice; lengths with lower limit 0 and mixed-case names are included. Text lengths around 255 / 4000 / 8000 / 32672 / 65535 / 2^31 are included. Fields added through the API with a default are included. Encoding properties, checks over optional fields and the command line's --create (CIDs as csv / ods / xlsx) are included. The separators between column definitions are checked.",
    "C20": "A field with the multi-part length '1, 3...4' is included; for the writer, header rows hold line breaks; two or three Readers are constructed up front on one CID; the allowed-characters row also follows the field rows. Allowed characters and multi-part lengths are also declared higher part first; check descriptions sort in the reverse of their declaration order. Multi-byte cells under UTF-8, plugin folders with glob characters and the command line with --plugins / --until are included. The row of empty cells always stays in the row pools; an all-optional configuration is included. Fixed data without line delimiter behind header records and a garbage collection after the plugin import are included. An entry point that fails before its first row is reported as a differing call sequence. Classes defined after a CID was loaded in the same process must resolve and be driven like classes defined up front.",
}


def main():
    ids = [json.loads(line)["id"] for line in open(os.path.join(HERE, "properties.jsonl"))]
    checks = []
    not_applicable = []
    for pid in ids:
        if pid in BUILT:
            technique, text, note, ref = BUILT[pid]
            if pid in ADDENDA:
                text = text + " " + ADDENDA[pid]
            checks.append({
                "property_id": pid,
                "quick_cmd": "./check %s --tier quick" % pid,
                "thorough_cmd": "./check %s --tier thorough" % pid,
                "evidence_file": "evidence/%s.json" % pid,
                "replay_cmd_template": "./check %s --replay {path}" % pid,
                "engine": "mc",
                "level_claimed": {"category": "model_checking", "text": text, "design_ref": ref},
                "level_note": note,
                "technique": technique,
            })
        else:
            not_applicable.append({"property_id": pid, "reason": NOT_YET})
    manifest = {
        "version": 1,
        "setup_cmd": "./check --setup",
        "hooks": {
            "guard": "CUTPLACE_VERIF",
            "enable": "no source hooks are needed: checks import /repo's working tree directly (mc/repo.py) and observe through the public API and Python introspection; CUTPLACE_VERIF=1 is exported by the runner but nothing in /repo reads it",
            "baseline_off_cmd": BASELINE_CMD,
            "source_commits": [],
            "add_only": True,
        },
        "engines": [{
            "name": "mc",
            "path": "mc/",
            "serves_properties": sorted(BUILT),
            "kind_free_text": "hand-written explicit-state / bounded-exhaustive explorers in Python driving the real cutplace code against reference models (product explorer with deviation bound, BFS history explorer with canonical-state merging, stream fixpoint explorer)",
        }],
        "checks": checks,
        "notes": "Exit codes: 0 held, 1 VIOLATION line printed, 2 harness error. known_findings.json lists recorded and fixed defects. VERIF_SEED only rotates enumeration start and sample selection.",
        "not_applicable": not_applicable,
    }
    with open(os.path.join(HERE, "MANIFEST.json"), "w") as manifest_file:
        json.dump(manifest, manifest_file, indent=1)
        manifest_file.write("\n")


if __name__ == "__main__":
    main()
