#!/venv/bin/python
"""Create a mutant patch: mkmut.py <name> <file relative to /repo> <old> <new>  (exact, single replacement)
writes /verif/mutants/<name>.diff (diff against /repo HEAD)."""
import os, subprocess, sys
name, rel, old, new = sys.argv[1:5]
path = os.path.join("/repo", rel)
text = open(path).read()
old = old.encode().decode("unicode_escape"); new = new.encode().decode("unicode_escape")
if text.count(old) != 1:
    sys.exit("pattern occurs %d times" % text.count(old))
open(path, "w").write(text.replace(old, new))
diff = subprocess.run(["git", "-C", "/repo", "diff"], capture_output=True, text=True).stdout
subprocess.run(["git", "-C", "/repo", "checkout", "--", "."])
out = os.path.join(os.path.dirname(os.path.dirname(os.path.abspath(__file__))), "mutants", name + ".diff")
open(out, "w").write(diff)
print("wrote", out, len(diff.splitlines()), "lines")
