#!/venv/bin/python
"""Screen every patch under mutants/ and seeded/*/patch.diff: copy /repo to a scratch directory, apply the patch,
run the 218-test stable baseline and the quick check of the property named by the patch (cNN_... / seeded/CNN-x),
delete the copy, and write mutants/RESULTS.md.  usage: mutants_run.py [--jobs 4] [name-filter]"""
import concurrent.futures, glob, json, os, re, shutil, subprocess, sys, tempfile
HERE = os.path.dirname(os.path.dirname(os.path.abspath(__file__)))
args = sys.argv[1:]
jobs = 4
if "--jobs" in args:
    jobs = int(args[args.index("--jobs") + 1]); del args[args.index("--jobs"):args.index("--jobs") + 2]
name_filter = args[0] if args else ""
patches = sorted(glob.glob(os.path.join(HERE, "mutants", "*.diff"))) + sorted(glob.glob(os.path.join(HERE, "seeded", "*", "patch.diff")))
def label(path):
    return os.path.basename(os.path.dirname(path)) if path.endswith("patch.diff") else os.path.basename(path)[:-5]
def screen(path):
    name = label(path)
    match = re.match(r"[cC](\d\d)", name)
    refactoring = match is None  # seeded/refactor-*: behaviour-preserving, every check must stay silent
    pid = "all" if refactoring else match.group(0).upper()
    scratch = tempfile.mkdtemp(prefix="mutant_%s_" % name)
    out = tempfile.mkdtemp(prefix="mutant_out_%s_" % name)
    try:
        tree = os.path.join(scratch, "repo")
        subprocess.run(["git", "clone", "-q", "/repo", tree], check=True)
        applied = subprocess.run(["git", "-C", tree, "apply", path], capture_output=True, text=True)
        if applied.returncode != 0:
            return name, pid, "patch does not apply", "-", "-"
        base = subprocess.run([os.path.join(HERE, "tools", "baseline.py"), tree], capture_output=True, text=True).stdout.strip().splitlines()
        env = dict(os.environ, VERIF_REPO=tree, VERIF_OUT=out, VERIF_NO_REPLAY_CHECK="1", VERIF_WORKERS="6")
        if refactoring:
            alarms = []
            for number in range(1, 21):
                one = subprocess.run([os.path.join(HERE, "check"), "C%02d" % number, "--tier", "quick"], capture_output=True, text=True, env=env, cwd=HERE)
                if one.returncode != 0:
                    alarms.append("C%02d exit %d" % (number, one.returncode))
            return name, pid, base[0] if base else "?", "no alarm (20 checks)" if not alarms else "FALSE ALARM", "; ".join(alarms)[:160]
        done = subprocess.run([os.path.join(HERE, "check"), pid, "--tier", "quick"], capture_output=True, text=True, env=env, cwd=HERE)
        sigs = [l.strip()[4:].split(" cases=")[0] for l in done.stdout.splitlines() if l.strip().startswith("sig=")]
        verdict = {0: "MISSED", 1: "caught", 2: "harness error"}.get(done.returncode, "exit %d" % done.returncode)
        meta_path = os.path.join(os.path.dirname(path), "meta.json")
        if done.returncode == 0 and path.endswith("patch.diff") and os.path.exists(meta_path) and json.load(open(meta_path)).get("neutralised_by"):
            # a later repair of /repo took the sting out of this change: it does not break the property any more
            verdict = "silent (change neutralised by a later fix, see meta.json)"
        return name, pid, base[0] if base else "?", verdict, "; ".join(sigs[:2])[:160]
    finally:
        shutil.rmtree(scratch, ignore_errors=True)
        shutil.rmtree(out, ignore_errors=True)
selected = [p for p in patches if name_filter in label(p)]
with concurrent.futures.ThreadPoolExecutor(jobs) as pool:
    results = list(pool.map(screen, selected))
lines = ["# Detection results (quick tier)", "", "Every patch is applied to a scratch clone of /repo; `baseline` is the stable 218-test baseline on the patched tree,",
         "`check` the verdict of the quick check of the property the patch targets.", "", "| patch | property | baseline | check | first failure signatures |", "|---|---|---|---|---|"]
for name, pid, base, verdict, sigs in results:
    lines.append("| %s | %s | %s | %s | %s |" % (name, pid, base, verdict, sigs.replace("|", "\\|")))
    print(name, pid, base, verdict)
if not name_filter:
    open(os.path.join(HERE, "mutants", "RESULTS.md"), "w").write("\n".join(lines) + "\n")
