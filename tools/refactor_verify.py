#!/venv/bin/python
"""Run every quick check against a behaviour-preserving refactoring delivered by a sub-agent: any VIOLATION or harness
error is a false alarm of our machinery.  usage: refactor_verify.py <R_name> [checks...]
Reads /tmp/wt/out/<R_name>/patch.diff (or seeded/refactor-<name>/patch.diff), files it under seeded/refactor-<name>/."""
import json, os, shutil, subprocess, sys, tempfile
HERE = os.path.dirname(os.path.dirname(os.path.abspath(__file__)))
name = sys.argv[1]
short = name[2:] if name.startswith("R_") else name
target = os.path.join(HERE, "seeded", "refactor-" + short)
os.makedirs(target, exist_ok=True)
source = os.path.join("/tmp/wt/out", name, "patch.diff")
if os.path.exists(source):
    wt = os.path.join("/tmp/wt", name)
    diff = subprocess.run(["git", "-C", wt, "diff", "--", "cutplace"], capture_output=True, text=True).stdout if os.path.isdir(wt) else open(source).read()
    open(os.path.join(target, "patch.diff"), "w").write(diff)
    notes = os.path.join("/tmp/wt/out", name, "notes.md")
    if os.path.exists(notes):
        shutil.copy(notes, os.path.join(target, "notes.md"))
manifest = json.load(open(os.path.join(HERE, "MANIFEST.json")))
checks = sys.argv[2:] or [c["property_id"] for c in manifest["checks"]]
scratch = tempfile.mkdtemp(prefix="refactor_%s_" % short)
results = {}
try:
    tree = os.path.join(scratch, "repo")
    subprocess.run(["git", "clone", "-q", "/repo", tree], check=True)
    applied = subprocess.run(["git", "-C", tree, "apply", os.path.join(target, "patch.diff")], capture_output=True, text=True)
    if applied.returncode != 0:
        sys.exit("patch does not apply: " + applied.stderr[:400])
    base = subprocess.run([os.path.join(HERE, "tools", "baseline.py"), tree], capture_output=True, text=True).stdout.strip().splitlines()
    print(short, "baseline:", base[0] if base else "?", flush=True)
    for check in checks:
        env = dict(os.environ, VERIF_REPO=tree, VERIF_OUT=os.path.join(scratch, "out"), VERIF_NO_REPLAY_CHECK="1")
        done = subprocess.run([os.path.join(HERE, "check"), check, "--tier", "quick"], capture_output=True, text=True, env=env, cwd=HERE)
        lines = done.stdout.splitlines()
        sigs = [l.strip() for l in lines if l.strip().startswith("sig=")]
        results[check] = {"exit": done.returncode, "signatures": sigs[:6]}
        flag = "" if done.returncode == 0 else "   <<<<<< ALARM"
        print("%s %s exit=%d %s%s" % (short, check, done.returncode, "; ".join(sigs[:3])[:300], flag), flush=True)
        if done.returncode == 2:
            print(done.stdout[-1200:], done.stderr[-800:], flush=True)
        if done.returncode == 1:
            out_replays = os.path.join(scratch, "out", "replays", check)
            keep = os.path.join(target, "alarms", check)
            if os.path.isdir(out_replays):
                shutil.rmtree(keep, ignore_errors=True)
                shutil.copytree(out_replays, keep)
finally:
    shutil.rmtree(scratch, ignore_errors=True)
meta = {"kind": "behaviour-preserving refactoring (must NOT be flagged)", "module": short, "baseline": base[0] if base else None,
        "ran": ["tools/baseline.py <scratch clone + patch>", "./check <every property> --tier quick with VERIF_REPO=<scratch clone>"], "check_results_quick": results,
        "alarms": sorted(c for c, r in results.items() if r["exit"] != 0)}
json.dump(meta, open(os.path.join(target, "meta.json"), "w"), indent=1)
print(short, "ALARMS:", meta["alarms"])
