#!/venv/bin/python
"""Run every registered check (default: quick tier) on /repo as it is and print one line per check.
usage: run_all.py [quick|thorough] [C01 C02 ...]"""
import json, os, subprocess, sys, time
HERE = os.path.dirname(os.path.dirname(os.path.abspath(__file__)))
args = sys.argv[1:]
tier = args.pop(0) if args and args[0] in ("quick", "thorough") else "quick"
manifest = json.load(open(os.path.join(HERE, "MANIFEST.json")))
pids = args or [c["property_id"] for c in manifest["checks"]]
bad = 0
for pid in pids:
    started = time.time()
    done = subprocess.run([os.path.join(HERE, "check"), pid, "--tier", tier], capture_output=True, text=True, cwd=HERE)
    lines = done.stdout.strip().splitlines()
    known = sum(1 for l in lines if l.startswith("KNOWN-FINDING"))
    violations = sum(1 for l in lines if l.startswith("VIOLATION"))
    print("%s exit=%d violations=%d known=%d wall=%.0fs | %s" % (pid, done.returncode, violations, known, time.time() - started, lines[-1][:160] if lines else done.stderr[-200:]), flush=True)
    # guard against a check silently shrinking: compare the number of evaluations with the committed evidence of the same tier
    try:
        before = json.loads(subprocess.run(["git", "-C", HERE, "show", "HEAD:evidence/%s.json" % pid], capture_output=True, text=True).stdout)
        after = json.load(open(os.path.join(os.environ.get("VERIF_OUT", HERE), "evidence", pid + ".json")))
        if before.get("tier") == after.get("tier") == tier and after["coverage"]["evaluations"] < 0.9 * before["coverage"]["evaluations"]:
            print("   WARNING %s: evaluations dropped from %d (committed) to %d" % (pid, before["coverage"]["evaluations"], after["coverage"]["evaluations"]), flush=True)
    except Exception:
        pass
    bad += done.returncode != 0
sys.exit(1 if bad else 0)
