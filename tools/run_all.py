#!/venv/bin/python
"""Run every registered check (default: quick tier) on /repo as it is and print one line per check.
usage: run_all.py [quick|thorough] [C01 C02 ...]"""
import json, os, subprocess, sys, time
HERE = os.path.dirname(os.path.dirname(os.path.abspath(__file__)))
args = sys.argv[1:]
tier = args.pop(0) if args and args[0] in ("quick", "thorough") else "quick"
manifest = json.load(open(os.path.join(HERE, "MANIFEST.json")))
pids = args or [c["property_id"] for c in manifest["checks"]]
bad = 0
for pid in pids:
    started = time.time()
    done = subprocess.run([os.path.join(HERE, "check"), pid, "--tier", tier], capture_output=True, text=True, cwd=HERE)
    lines = done.stdout.strip().splitlines()
    known = sum(1 for l in lines if l.startswith("KNOWN-FINDING"))
    violations = sum(1 for l in lines if l.startswith("VIOLATION"))
    print("%s exit=%d violations=%d known=%d wall=%.0fs | %s" % (pid, done.returncode, violations, known, time.time() - started, lines[-1][:160] if lines else done.stderr[-200:]), flush=True)
    bad += done.returncode != 0
sys.exit(1 if bad else 0)
