#!/venv/bin/python
"""Verify a sub-agent's seeded change and file it under /verif/seeded/<name>/.
usage: seed_verify.py <WORKTREE-ID> <name> [checks...]
Expects /tmp/wt/<ID> (worktree with the change) and /tmp/wt/out/<ID>/{patch.diff,demo.py,notes.md}.
The checks run against a scratch clone of /repo with the patch applied (VERIF_REPO), so /repo is never touched."""
import json, os, re, shutil, subprocess, sys, tempfile
HERE = os.path.dirname(os.path.dirname(os.path.abspath(__file__)))
wid, name = sys.argv[1], sys.argv[2]
pid = re.match(r"C\d\d", wid).group(0)
checks = sys.argv[3:] or [pid]
wt = "/tmp/wt/" + wid
out = "/tmp/wt/out/" + wid
def run(cmd, **kw):
    return subprocess.run(cmd, capture_output=True, text=True, **kw)
base = run([os.path.join(HERE, "tools", "baseline.py"), wt]).stdout.strip().splitlines()
print("baseline on worktree:", base[0] if base else "?")
demo_wt = run(["/venv/bin/python", os.path.join(out, "demo.py"), wt])
demo_repo = run(["/venv/bin/python", os.path.join(out, "demo.py"), "/repo"])
print("demo: worktree exit=%d, /repo exit=%d" % (demo_wt.returncode, demo_repo.returncode))
diff = run(["git", "-C", wt, "diff", "--", "cutplace"]).stdout
target = os.path.join(HERE, "seeded", name)
os.makedirs(target, exist_ok=True)
open(os.path.join(target, "patch.diff"), "w").write(diff)
shutil.copy(os.path.join(out, "demo.py"), os.path.join(target, "demo.py"))
if os.path.exists(os.path.join(out, "notes.md")):
    shutil.copy(os.path.join(out, "notes.md"), os.path.join(target, "notes.md"))
scratch = tempfile.mkdtemp(prefix="seed_%s_" % name)
results = {}
try:
    tree = os.path.join(scratch, "repo")
    subprocess.run(["git", "clone", "-q", "/repo", tree], check=True)
    applied = run(["git", "-C", tree, "apply", os.path.join(target, "patch.diff")])
    if applied.returncode != 0:
        print("PATCH DOES NOT APPLY to current /repo HEAD:", applied.stderr[:300])
    else:
        for check in checks:
            env = dict(os.environ, VERIF_REPO=tree, VERIF_OUT=os.path.join(scratch, "out"), VERIF_NO_REPLAY_CHECK="1")
            done = run([os.path.join(HERE, "check"), check, "--tier", "quick"], env=env, cwd=HERE)
            lines = done.stdout.splitlines()
            sigs = [l.strip() for l in lines if l.strip().startswith("sig=")]
            results[check] = "%s exit=%d violations=%d %s" % (check, done.returncode, sum(1 for l in lines if l.startswith("VIOLATION")), "; ".join(sigs[:3]))
            print(results[check][:400])
            if done.returncode not in (0, 1):
                print(done.stdout[-1500:], done.stderr[-1500:])
finally:
    shutil.rmtree(scratch, ignore_errors=True)
ok = bool(base) and "stable_missing=0" in base[0] and demo_wt.returncode == 1 and demo_repo.returncode == 0
meta = {"breaks_property": pid, "name": name, "confirmed": ok, "baseline_on_worktree": base[0] if base else None,
        "demo_exit_with_change": demo_wt.returncode, "demo_exit_unchanged": demo_repo.returncode,
        "ran": ["tools/baseline.py <worktree>", "demo.py <worktree>", "demo.py /repo", "./check <id> --tier quick with VERIF_REPO=<scratch clone + patch.diff>"],
        "check_results_quick": results}
if os.path.exists(os.path.join(target, "meta.json")):
    old = json.load(open(os.path.join(target, "meta.json")))
    meta["needs_to_manifest"] = old.get("needs_to_manifest")
json.dump(meta, open(os.path.join(target, "meta.json"), "w"), indent=1)
print("confirmed" if ok else "NOT CONFIRMED", "->", target)
