#!/venv/bin/python
"""Verify a sub-agent's seeded change and file it under /verif/seeded/<name>/.
usage: seed_verify.py <PID> <name> [checks...]
Expects /tmp/wt/<PID> (worktree with the change) and /tmp/wt/out/<PID>/{patch.diff,demo.py,notes.md}."""
import json, os, shutil, subprocess, sys
HERE = os.path.dirname(os.path.dirname(os.path.abspath(__file__)))
pid, name = sys.argv[1], sys.argv[2]
checks = sys.argv[3:] or [pid]
wt = "/tmp/wt/" + pid
out = "/tmp/wt/out/" + pid
def run(cmd, **kw):
    return subprocess.run(cmd, capture_output=True, text=True, **kw)
base = run([os.path.join(HERE, "tools", "baseline.py"), wt]).stdout.strip().splitlines()
print("baseline on worktree:", base[0] if base else "?")
demo_wt = run(["/venv/bin/python", os.path.join(out, "demo.py"), wt])
demo_repo = run(["/venv/bin/python", os.path.join(out, "demo.py"), "/repo"])
print("demo: worktree exit=%d, /repo exit=%d" % (demo_wt.returncode, demo_repo.returncode))
# regenerate the patch from the worktree itself
diff = run(["git", "-C", wt, "diff", "--", "cutplace"]).stdout
target = os.path.join(HERE, "seeded", name)
os.makedirs(target, exist_ok=True)
open(os.path.join(target, "patch.diff"), "w").write(diff)
shutil.copy(os.path.join(out, "demo.py"), os.path.join(target, "demo.py"))
if os.path.exists(os.path.join(out, "notes.md")):
    shutil.copy(os.path.join(out, "notes.md"), os.path.join(target, "notes.md"))
results = {}
done = run([os.path.join(HERE, "tools", "try_patch.py"), os.path.join(target, "patch.diff")] + checks)
print(done.stdout.strip(), done.stderr.strip()[-500:])
for line in done.stdout.splitlines():
    parts = line.split()
    if parts and parts[0] in checks:
        results[parts[0]] = line
ok = bool(base) and "stable_missing=0" in base[0] and demo_wt.returncode == 1 and demo_repo.returncode == 0
meta = {"property": pid, "name": name, "confirmed": ok, "baseline_on_worktree": base[0] if base else None,
        "demo_exit_with_change": demo_wt.returncode, "demo_exit_unchanged": demo_repo.returncode,
        "ran": ["tools/baseline.py <worktree>", "demo.py <worktree>", "demo.py /repo", "tools/try_patch.py patch.diff " + " ".join(checks)],
        "check_results_quick": results}
json.dump(meta, open(os.path.join(target, "meta.json"), "w"), indent=1)
print("confirmed" if ok else "NOT CONFIRMED", "->", target)
