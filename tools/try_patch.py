#!/venv/bin/python
"""Apply a patch to /repo, optionally run the stable baseline, run the given checks (quick tier),
and undo the patch again.  usage: try_patch.py <patch.diff> [--baseline] [--tier thorough] C02 C03 ..."""
import os
import subprocess
import sys

HERE = os.path.dirname(os.path.dirname(os.path.abspath(__file__)))
args = sys.argv[1:]
patch = os.path.abspath(args.pop(0))
baseline = "--baseline" in args
tier = "quick"
if "--tier" in args:
    tier = args[args.index("--tier") + 1]
    del args[args.index("--tier"):args.index("--tier") + 2]
pids = [a for a in args if not a.startswith("--")]
status = subprocess.run(["git", "-C", "/repo", "status", "--porcelain"], capture_output=True, text=True).stdout.strip()
if status:
    sys.exit("/repo is not clean:\n" + status)
applied = subprocess.run(["git", "-C", "/repo", "apply", patch])
if applied.returncode != 0:
    sys.exit("patch does not apply")
import shutil, tempfile
evidence_backup = tempfile.mkdtemp(prefix="evidence_backup_")
shutil.copytree(os.path.join(HERE, "evidence"), os.path.join(evidence_backup, "evidence"))
try:
    if baseline:
        done = subprocess.run([os.path.join(HERE, "tools", "baseline.py"), "/repo"], capture_output=True, text=True)
        print("BASELINE:", done.stdout.strip().replace("\n", " | "))
    for pid in pids:
        env = dict(os.environ, VERIF_NO_REPLAY_CHECK="1")
        done = subprocess.run([os.path.join(HERE, "check"), pid, "--tier", tier], capture_output=True, text=True, env=env)
        lines = done.stdout.splitlines()
        violations = [l for l in lines if l.startswith("VIOLATION")]
        sigs = [l.strip() for l in lines if l.strip().startswith("sig=")]
        print("%s exit=%d violations=%d %s" % (pid, done.returncode, len(violations), "; ".join(sigs[:4])))
        if done.returncode not in (0, 1):
            print(done.stdout[-2000:], done.stderr[-2000:])
finally:
    # runs against a patched tree must not leave their evidence behind
    shutil.rmtree(os.path.join(HERE, "evidence"), ignore_errors=True)
    shutil.copytree(os.path.join(evidence_backup, "evidence"), os.path.join(HERE, "evidence"))
    shutil.rmtree(evidence_backup, ignore_errors=True)
    subprocess.run(["git", "-C", "/repo", "checkout", "--", "."])
    subprocess.run(["git", "-C", "/repo", "clean", "-fdq", "tests/"])
