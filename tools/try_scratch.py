#!/venv/bin/python
"""Like try_patch.py but never touches /repo: clone /repo to a scratch directory, apply the patch there and run the
given checks with VERIF_REPO pointing at the clone.  usage: try_scratch.py <patch.diff> [--tier thorough] C02 C03 ..."""
import os, shutil, subprocess, sys, tempfile
HERE = os.path.dirname(os.path.dirname(os.path.abspath(__file__)))
args = sys.argv[1:]
patch = os.path.abspath(args.pop(0))
tier = "quick"
if "--tier" in args:
    tier = args[args.index("--tier") + 1]
    del args[args.index("--tier"):args.index("--tier") + 2]
scratch = tempfile.mkdtemp(prefix="try_scratch_")
try:
    tree = os.path.join(scratch, "repo")
    subprocess.run(["git", "clone", "-q", "/repo", tree], check=True)
    applied = subprocess.run(["git", "-C", tree, "apply", patch], capture_output=True, text=True)
    if applied.returncode != 0:
        sys.exit("patch does not apply: " + applied.stderr[:300])
    for pid in args:
        env = dict(os.environ, VERIF_REPO=tree, VERIF_OUT=os.path.join(scratch, "out"), VERIF_NO_REPLAY_CHECK="1")
        done = subprocess.run([os.path.join(HERE, "check"), pid, "--tier", tier], capture_output=True, text=True, env=env, cwd=HERE)
        lines = done.stdout.splitlines()
        sigs = [l.strip() for l in lines if l.strip().startswith("sig=")]
        print("%s exit=%d violations=%d %s" % (pid, done.returncode, sum(1 for l in lines if l.startswith("VIOLATION")), "; ".join(sigs[:3])[:400]))
        if done.returncode not in (0, 1):
            print(done.stdout[-1500:], done.stderr[-1500:])
finally:
    shutil.rmtree(scratch, ignore_errors=True)
