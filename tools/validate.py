#!/opt/veriftools/pyvenv/bin/python
"""Validate MANIFEST.json and all evidence files against the schemas (jsonschema, tooling venv)."""
import glob, json, os, sys
import jsonschema
HERE = os.path.dirname(os.path.dirname(os.path.abspath(__file__)))
bad = 0
def check(path, schema_path):
    global bad
    try:
        jsonschema.validate(json.load(open(path)), json.load(open(schema_path)))
        print("ok  ", os.path.relpath(path, HERE))
    except Exception as error:
        bad += 1
        print("BAD ", os.path.relpath(path, HERE), str(error).splitlines()[0])
check(os.path.join(HERE, "MANIFEST.json"), "/root/.vp/MANIFEST.schema.json")
for path in sorted(glob.glob(os.path.join(HERE, "evidence", "C*.json"))):
    check(path, "/root/.vp/EVIDENCE.schema.json")
sys.exit(1 if bad else 0)
